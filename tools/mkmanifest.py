#!/usr/bin/env python3
"""Regenerates /verif/MANIFEST.json from the table below (keeps it valid at all times)."""
import json, os, subprocess
ROOT = os.path.dirname(os.path.dirname(os.path.abspath(__file__)))
props = [json.loads(l)["id"] for l in open(os.path.join(ROOT, "properties.jsonl"))]

MC = "model_checking"
CHECKS = {
 "C03": dict(level=MC, design="DESIGN.md §3.3, §7 C03",
   text="TLC exhaustively checks first-match/default/refusal/exactly-one on Mux.tla for every route table reachable by registration (<=2 routes over 54 route kinds, thorough <=3 over a reduced alphabet) and every request; the same tables are emitted by TLC, built in the real Mux through the public API, exercised with every request over a real TCP connection, and the observations are validated by TLC (MuxTrace) against Serve() of the spec. Complete within the symbolic alphabet; the alphabet is the bound.",
   note="Trusts: data independence of Mux matching outside the enumerated positions (operation, case-folded base DN / filter, scope, extended name); the harness's strict BER parser; OnClose as the end-of-handlers barrier. Filter criteria are restricted to ASCII (go-ldap decompiles non-ASCII filter values to escaped form).",
   technique="TLA+ spec Mux.tla model-checked with TLC; TLC-generated route tables replayed on the real Mux/server; observations validated by TLC trace spec MuxTrace"),
}
NOT_YET = "check not built yet (work in progress)"

def hooks_commits():
    try:
        out = subprocess.run(["git", "-C", "/repo", "log", "--format=%H %s"], capture_output=True, text=True).stdout
        return [l.split()[0] for l in out.splitlines() if l.split(" ", 1)[1].startswith("verif:")]
    except Exception:
        return []

m = {"version": 1,
     "setup_cmd": "cd /verif/harness && cp /repo/go.sum go.sum && GOFLAGS=-mod=mod GOPROXY=off GOSUMDB=off GOTOOLCHAIN=local go build -tags verif -o /verif/.work/bin/gv ./cmd/gv",
     "hooks": {"guard": "verif", "enable": "go build -tags verif (the harness module /verif/harness replaces github.com/jimlambrt/gldap => /repo, so every check rebuilds from /repo's working tree); gates are installed with gldap.SetVerifGate",
               "baseline_off_cmd": "cd /repo && go test -mod=mod -vet=off -count=1 ./...",
               "source_commits": hooks_commits(), "add_only": True},
     "engines": [{"name": "tlc", "path": "/verif/spec", "serves_properties": sorted(CHECKS), "kind_free_text": "TLA+ specifications checked with TLC 1.8 (design model checking, vector/behaviour generation, trace validation)"},
                 {"name": "gv", "path": "/verif/harness", "serves_properties": sorted(CHECKS), "kind_free_text": "Go harness replaying TLC-generated vectors/behaviours on the real code and recording ND-JSON traces"}],
     "checks": [], "notes": "tools/check <id> --tier quick|thorough; VERIF_SEED selects the concretisation of symbolic alphabets and random schedules. See DESIGN.md.",
     "not_applicable": []}
for p in props:
    c = CHECKS.get(p)
    if not c:
        m["not_applicable"].append({"property_id": p, "reason": NOT_YET})
        continue
    m["checks"].append({"property_id": p, "quick_cmd": "tools/check %s --tier quick" % p, "thorough_cmd": "tools/check %s --tier thorough" % p,
                        "evidence_file": "/verif/evidence/%s.json" % p, "replay_cmd_template": "tools/check %s --replay {path}" % p,
                        "engine": "tlc+gv", "level_claimed": {"category": c["level"], "text": c["text"], "design_ref": c["design"]},
                        "level_note": c["note"], "technique": c["technique"]})
json.dump(m, open(os.path.join(ROOT, "MANIFEST.json"), "w"), indent=1)
print("checks:", [c["property_id"] for c in m["checks"]])
