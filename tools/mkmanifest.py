#!/usr/bin/env python3
"""Regenerates /verif/MANIFEST.json from the table below (keeps it valid at all times)."""
import json, os, subprocess
ROOT = os.path.dirname(os.path.dirname(os.path.abspath(__file__)))
props = [json.loads(l)["id"] for l in open(os.path.join(ROOT, "properties.jsonl"))]

MC = "model_checking"
CHECKS = {
 "C03": dict(level=MC, design="DESIGN.md §3.3, §7 C03",
   text="TLC exhaustively checks first-match/default/refusal/exactly-one on Mux.tla for every route table reachable by registration (<=2 routes over 54 route kinds, thorough <=3 over a reduced alphabet) and every request; the same tables are emitted by TLC, built in the real Mux through the public API, exercised with every request over a real TCP connection, and the observations are validated by TLC (MuxTrace) against Serve() of the spec. Complete within the symbolic alphabet; the alphabet is the bound.",
   note="Trusts: data independence of Mux matching outside the enumerated positions (operation, case-folded base DN / filter, scope, extended name); the harness's strict BER parser; OnClose as the end-of-handlers barrier. Filter criteria are restricted to ASCII (go-ldap decompiles non-ASCII filter values to escaped form).",
   technique="TLA+ spec Mux.tla model-checked with TLC; TLC-generated route tables replayed on the real Mux/server; observations validated by TLC trace spec MuxTrace"),
"C19": dict(level=MC, design="DESIGN.md §3.6, §7 C19",
   text="TLC checks C19Holds (the property as stated) against BindResult (the handler's rule) for every directory state reachable through SetUsers/SetAllowAnonymousBind (user sets of <=2, thorough <=3, entries over prefix-related/case-variant DNs x six password-attribute shapes) and every bind; the same states are installed in real test directories and every bind is sent over plain, TLS and StartTLS connections; TLC (Dir19Trace) compares each result code with the spec. In addition bind-focused operation histories (add/modify/delete/Set*/bind, exhaustive to depth 3, thorough 4, plus TLC -simulate) are replayed and validated by Dir20Trace.BindConforms. Complete within the alphabets.",
   note="Trusts: data independence of handleBind in DN/password content beyond equality, prefix and case relations (the symbols' concretisation varies with VERIF_SEED); the harness's BER encoder/parser.",
   technique="TLA+ spec Directory.tla/Dir19.tla model-checked with TLC; TLC-generated directory states and bind-focused histories replayed on the real testdirectory; observations validated by TLC trace specs Dir19Trace/Dir20Trace"),
 "C20": dict(level=MC, design="DESIGN.md §3.6, §7 C20",
   text="Directory.tla is a state machine with one action per handler and Set* method. TLC checks it (UniqueUserDNs, CodesOK and the action properties AddFound/DeleteGone/ModifyMissing) and, through a history variable, enumerates every operation sequence of length 2 (thorough 3) over a pool of users, a group and new DNs, plus -simulate behaviours of length 12 (thorough 30). Each behaviour is replayed on real plain and TLS test directories by two alternating clients; after every operation all pool DNs are searched. The recorded trace (arguments, result code, search results) is validated by TLC against Dir20Trace, whose actions are the Directory actions with the logged arguments (ReplyConforms, SearchConforms, NotStuck).",
   note="Trusts: DN pool is ASCII and substring-free (precondition of the property); attributes compared as sets of (name, bag of values), values as plain or BER-wrapped; replace only generated for existing attributes.",
   technique="TLA+ state machine Directory.tla/Dir20.tla model-checked with TLC; TLC-generated behaviours replayed on the real testdirectory; recorded traces validated by TLC trace spec Dir20Trace"),
"C14": dict(level=MC, design="DESIGN.md §3.4, §7 C14",
   text="Ctl.tla gives every control value constructible through the exported API (46 values over symbolic sizes/cookies/counters), gldap's Encode as an abstract wire form and decodeControl / a conforming client as Decode; TLC checks RoundTrip and the Behera constructor's validation (BeheraDesign). TLC emits every list of <=2 controls (thorough: + triples over a reduced set) and every Behera option combination; each list is built with gldap's API (fresh objects and re-used objects mutated through exported fields), sent in gldap's own encoding as request controls and set on Bind and SearchDone responses; the handler's decoded view, the harness's strict parse and go-ldap's DecodeControl are validated by TLC (CtlTrace) against the spec. Complete within the alphabets.",
   note="Trusts: data independence of the control codec in field values beyond the enumerated boundary symbols (0, mid, max; empty/binary/long strings); go-ldap's view is skipped for the one shape on which go-ldap v3.4.6 itself panics (Behera without value).",
   technique="TLA+ spec Ctl.tla model-checked with TLC; TLC-generated control lists replayed through the real encoder/decoder in both directions; observations validated by TLC trace spec CtlTrace"),
 "C16": dict(level=MC, design="DESIGN.md §3.5, §7 C16",
   text="Helpers.tla describes ConvertString/readLength over byte-string forms (tag x length form x length octets present x content length class), the SID helpers, NewEntry ordering and every constructor / Mux registration method over sequences of option tokens (nil and foreign-family options included) with their two possible outcomes (value or error). TLC checks the design statements (WrapConverts, BeheraAtMostOne), emits all vectors (25k quick with <=2 options, 640k thorough with <=3), the harness calls the real functions under recover() (Request-based constructors inside a handler on a live connection, each response also written) and TLC (HelpersTrace) checks NoPanic, OutcomeConforms and ValueConforms on every observation.",
   note="Trusts: contents of byte strings are random per seed (the code does not branch on them); option values are one or two representatives per option.",
   technique="TLA+ spec Helpers.tla checked with TLC; TLC-generated call vectors executed on the real exported API; observations validated by TLC trace spec HelpersTrace"),
"C04": dict(level=MC, design="DESIGN.md §3.4, §7 C04",
   text="Resp.tla models building a response (constructor with options, setters) and writing it, several per request; TLC explores the builder state machine (TagOK, CtlsOnlyWhereSettable, WritesAppendOnly) and emits every constructor x every sequence of <=2 option tokens x every well-typed setter sequence plus multi-response scripts (39k quick, more thorough). A real handler interprets each script with the public API and writes; the harness's strict LDAPMessage parser reads the frames; TLC (RespTrace) checks one frame per Write with the request's message id, the tag, the fields that were set, entry attributes (map part unordered, AddAttribute part ordered) and controls against Build() of the spec.",
   note="Trusts: data independence in string/number content beyond the boundary symbols; message ids chosen >= 5,000,000 so they never coincide with the per-connection request counter; unsupported options are treated as don't-care.",
   technique="TLA+ spec Resp.tla model-checked with TLC; TLC-generated builder scripts executed in a real handler; frames parsed strictly and validated by TLC trace spec RespTrace"),
"C01": dict(level=MC, design="DESIGN.md §3.4, §7 C01",
   text="Ber.tla/Req.tla define abstract BER trees, the RFC 4511 encoding of every supported request (EncodeRequest) and a transcription of gldap's request decoding (DecodeReq: envelope and LDAPv3 gates, per-operation positional decode, control decode). TLC checks DecodeReq(EncodeRequest(r)) = r for about 2,000 (thorough: 9,000) requests - per operation the product of field alphabets, every request control alone and in pairs in both orders, unsupported operations and bind versions other than 3 (rejected). Each tree is serialised by the harness's own BER encoder, sent to a real server on its own connection, and the handler reports Request.Get*Message() field by field; TLC (ReqTrace) checks Delivered / Answered / NotDelivered on every observation.",
   note="Trusts: data independence of copied fields (strings concretised per seed as empty/binary/non-ASCII/128..65536-byte values, ids as 0/boundary/2^31-1/random); the filter corpus of 12 shapes compared by recompilation; go-ldap's compiler for the filter bytes.",
   technique="TLA+ specs Ber.tla/Req.tla checked with TLC (encode/decode round trip); TLC-generated request trees serialised and sent to the real server; handler observations validated by TLC trace spec ReqTrace"),
 "C02": dict(level=MC, design="DESIGN.md §3.4, §7 C02, §9",
   text="TLC checks that DecodeReq is total (TotalOn) on the complete set of single-point mutants (12 replacement node kinds at every node, delete / duplicate / swap / append / empty-content) of 10 canonical request trees covering every operation and control family, and emits them with the predicted outcome. Every mutant - plus truncation at every byte offset, 13 corruptions of every length octet and seeded random flips/bodies of short canonical frames - is sent on its own connection to (a) a worker subprocess with WithDisablePanicRecovery and a debug-level logger (a panic kills it; stderr names the site) and (b) an in-process server with recovery and an error-level log sink ('Caught panic'). TLC (ReqTrace02) checks the outcome alphabet and that recovery does not change the outcome. The byte-level part is exploration (see DESIGN §9).",
   note="Trusts: process exit / log record as the panic observable; crashes without a gldap frame on the stack (inside a dependency) are reported separately; declared lengths capped at 1 MiB.",
   technique="TLA+ specs Ber.tla/Req.tla: TLC-enumerated complete single-point mutants of request trees with predicted decode outcome, executed against the real server in a crash-detecting subprocess; outcomes validated by TLC trace spec ReqTrace02; driver-generated byte-level corruptions"),
}
NOT_YET = "check not built yet (work in progress)"

def hooks_commits():
    try:
        out = subprocess.run(["git", "-C", "/repo", "log", "--format=%H %s"], capture_output=True, text=True).stdout
        return [l.split()[0] for l in out.splitlines() if l.split(" ", 1)[1].startswith("verif:")]
    except Exception:
        return []

m = {"version": 1,
     "setup_cmd": "cd /verif/harness && cp /repo/go.sum go.sum && GOFLAGS=-mod=mod GOPROXY=off GOSUMDB=off GOTOOLCHAIN=local go build -tags verif -o /verif/.work/bin/gv ./cmd/gv",
     "hooks": {"guard": "verif", "enable": "go build -tags verif (the harness module /verif/harness replaces github.com/jimlambrt/gldap => /repo, so every check rebuilds from /repo's working tree); gates are installed with gldap.SetVerifGate",
               "baseline_off_cmd": "cd /repo && go test -mod=mod -vet=off -count=1 ./...",
               "source_commits": hooks_commits(), "add_only": True},
     "engines": [{"name": "tlc", "path": "/verif/spec", "serves_properties": sorted(CHECKS), "kind_free_text": "TLA+ specifications checked with TLC 1.8 (design model checking, vector/behaviour generation, trace validation)"},
                 {"name": "gv", "path": "/verif/harness", "serves_properties": sorted(CHECKS), "kind_free_text": "Go harness replaying TLC-generated vectors/behaviours on the real code and recording ND-JSON traces"}],
     "checks": [], "notes": "tools/check <id> --tier quick|thorough; VERIF_SEED selects the concretisation of symbolic alphabets and random schedules. See DESIGN.md.",
     "not_applicable": []}
for p in props:
    c = CHECKS.get(p)
    if not c:
        m["not_applicable"].append({"property_id": p, "reason": NOT_YET})
        continue
    m["checks"].append({"property_id": p, "quick_cmd": "tools/check %s --tier quick" % p, "thorough_cmd": "tools/check %s --tier thorough" % p,
                        "evidence_file": "/verif/evidence/%s.json" % p, "replay_cmd_template": "tools/check %s --replay {path}" % p,
                        "engine": "tlc+gv", "level_claimed": {"category": c["level"], "text": c["text"], "design_ref": c["design"]},
                        "level_note": c["note"], "technique": c["technique"]})
json.dump(m, open(os.path.join(ROOT, "MANIFEST.json"), "w"), indent=1)
print("checks:", [c["property_id"] for c in m["checks"]])
