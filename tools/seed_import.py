#!/usr/bin/env python3
"""seed_import.py <ID> <mN> [--name NAME]: confirm a sub-agent's seeded change in a scratch worktree (suite passes with the patch,
demo fails with it, demo passes without it) and store it as /verif/seeded/<ID>-<mN>/ (patch.diff, demo, NOTES.md, meta.json)."""
import json, os, re, shutil, subprocess, sys, time
ID, M = sys.argv[1], sys.argv[2]
src = "/tmp/mut/out/%s/%s" % (ID, M)
dst = "/verif/seeded/%s-%s" % (ID, M)
wt = "/tmp/seedchk/%s-%s" % (ID, M)
env = dict(os.environ, GOFLAGS="-mod=mod", GOPROXY="off", GOSUMDB="off", GOTOOLCHAIN="local")

def sh(cmd, cwd=None, timeout=900):
    p = subprocess.run(cmd, shell=True, cwd=cwd, env=env, stdout=subprocess.PIPE, stderr=subprocess.STDOUT, text=True, timeout=timeout)
    return p.returncode, p.stdout

first = open(src + "/demo_test.go").readline()
m = re.search(r"-run\s+'([^']+)'\s+(\S+)", first)
if not m:
    m = re.search(r"-run\s+(\S+)\s+(\S+)", first)
runre, pkg = m.group(1), m.group(2).rstrip(".;,)") or "."
pkg = pkg if pkg.startswith("./") or pkg == "." else "."
sub = "testdirectory" if ("testdirectory" in first.split("run")[0] or pkg.strip("./") == "testdirectory") else ""
shutil.rmtree(wt, ignore_errors=True)
os.makedirs("/tmp/seedchk", exist_ok=True)
sh("git -C /repo worktree prune")
rc, out = sh("git -C /repo worktree add -q --detach %s HEAD" % wt)
assert rc == 0, out
res = {}
try:
    rc, out = sh("git apply %s/patch.diff" % src, cwd=wt)
    assert rc == 0, "patch does not apply: " + out
    rc, out = sh("timeout 400 go test -vet=off -count=1 -timeout 300s ./...", cwd=wt)
    res["suite_with_patch"] = "pass" if rc == 0 else "FAIL"
    demo = os.path.join(wt, sub, "zz_seed_demo_test.go")
    shutil.copy(src + "/demo_test.go", demo)
    racef = "-race " if "-race" in first else ""
    cmd = "timeout 300 go test %s-vet=off -count=1 -timeout 200s -run '%s' %s" % (racef, runre, "./" + sub if sub else ".")
    fails = 0
    for i in range(3):
        rc, out = sh(cmd, cwd=wt)
        fails += rc != 0
    res["demo_with_patch_failed_runs"] = "%d/3" % fails
    sh("git apply -R %s/patch.diff" % src, cwd=wt)
    passes = 0
    for i in range(3):
        rc, out = sh(cmd, cwd=wt)
        passes += rc == 0
    res["demo_without_patch_passed_runs"] = "%d/3" % passes
    res["demo_cmd"] = cmd
    ok = res["suite_with_patch"] == "pass" and fails >= 3 and passes >= 3
    res["confirmed"] = ok
finally:
    sh("git -C /repo worktree remove --force %s" % wt)
print(json.dumps(res, indent=1))
if res.get("confirmed"):
    os.makedirs(dst, exist_ok=True)
    for f in ("patch.diff", "demo_test.go", "NOTES.md"):
        shutil.copy(os.path.join(src, f), os.path.join(dst, f))
    notes = open(src + "/NOTES.md").read()
    prop = ID
    meta = {"id": "%s-%s" % (ID, M), "breaks_property": prop, "origin": "fresh sub-agent given only the property text and a scratch worktree",
            "needs_to_manifest": "see NOTES.md", "demo_placement": (sub or "repository root"), "confirmation": res,
            "base_commit": subprocess.run("git -C /repo rev-parse HEAD", shell=True, stdout=subprocess.PIPE, text=True).stdout.strip(),
            "detected_by": None}
    json.dump(meta, open(dst + "/meta.json", "w"), indent=1)
    print("stored", dst)
else:
    print("NOT CONFIRMED", ID, M)
    sys.exit(1)
