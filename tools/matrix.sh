#!/bin/bash
# matrix.sh <seeded-id>...  : run the quick check of the property a seeded change breaks against a scratch worktree with the
# change applied; prints "<id> <property> DETECTED|MISSED rc=<rc> <seconds>s".  Nothing is ever applied to /repo itself.
cd /verif
for sid in "$@"; do
  prop=${sid%%-*}
  wt=/tmp/matrix/$sid
  rm -rf $wt; mkdir -p /tmp/matrix
  git -C /repo worktree prune
  git -C /repo worktree add -q --detach $wt HEAD || { echo "$sid worktree failed"; continue; }
  if ! git -C $wt apply /verif/seeded/$sid/patch.diff 2>/dev/null; then echo "$sid $prop PATCH-DOES-NOT-APPLY"; git -C /repo worktree remove --force $wt; continue; fi
  t0=$(date +%s)
  out=$(VERIF_REPO=$wt timeout 1500 tools/check $prop --tier ${TIER:-quick} 2>&1); rc=$?
  t1=$(date +%s)
  if [ $rc -eq 1 ] && echo "$out" | grep -q "^VIOLATION property=$prop"; then verdict=DETECTED; elif [ $rc -eq 0 ]; then verdict=MISSED; else verdict="INFRA(rc=$rc)"; fi
  first=$(echo "$out" | grep -m1 'violation:' | cut -c1-300)
  echo "$sid $prop $verdict rc=$rc $((t1-t0))s $first"
  python3 - "$sid" "$prop" "$verdict" "$rc" "$((t1-t0))" "${TIER:-quick}" "$first" >> /verif/.work/matrix_results.ndjson <<'PY'
import sys, json, time
a = sys.argv[1:]
print(json.dumps({"id": a[0], "property": a[1], "verdict": a[2], "rc": int(a[3]), "seconds": int(a[4]), "tier": a[5], "first_violation": a[6].strip(), "at": time.strftime("%Y-%m-%dT%H:%M:%SZ", time.gmtime())}))
PY
  git -C /repo worktree remove --force $wt
done
