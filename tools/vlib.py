"""Shared machinery for /verif/tools/check: scratch dirs, TLC runs and output parsing,
harness build/run, known findings, evidence and verdict lines."""
import json, os, re, shutil, subprocess, sys, time, glob, hashlib

ROOT = os.path.dirname(os.path.dirname(os.path.abspath(__file__)))
SPEC = os.path.join(ROOT, "spec")
HARNESS = os.path.join(ROOT, "harness")
WORK = os.path.join(ROOT, ".work")
REPO = os.environ.get("VERIF_REPO", "/repo")   # the matrix of seeded changes runs against scratch worktrees

GOENV = {"GOFLAGS": "-mod=mod", "GOPROXY": "off", "GOSUMDB": "off", "GOTOOLCHAIN": "local",
         "CGO_ENABLED": os.environ.get("CGO_ENABLED", "")}


class Infra(Exception):
    """infrastructure failure: exit 2, never a violation"""


def log(*a):
    print(*a, file=sys.stderr, flush=True)


class Run:
    def __init__(self, pid, tier, seed):
        self.id, self.tier, self.seed = pid, tier, seed
        self.t0 = time.time()
        self.work = os.path.join(WORK, "%s-%s-%d" % (pid, tier, os.getpid()))
        shutil.rmtree(self.work, ignore_errors=True)
        os.makedirs(self.work)
        self.specdir = os.path.join(self.work, "spec")
        shutil.copytree(SPEC, self.specdir)
        self.tlc_cmds = []
        self.nmeta = 0
        self.gv = None

    def quick(self):
        return self.tier == "quick"

    def path(self, *p):
        return os.path.join(self.work, *p)

    def cleanup(self):
        if os.environ.get("VERIF_KEEP"):
            return
        shutil.rmtree(self.work, ignore_errors=True)

    # ------------------------------------------------------------------ harness
    def build(self, race=False):
        env = dict(os.environ)
        env.update({k: v for k, v in GOENV.items() if v != "" or k != "CGO_ENABLED"})
        if race:
            env["CGO_ENABLED"] = "1"
        hdir = HARNESS
        if REPO != "/repo":
            hdir = self.path("harness")
            if not os.path.isdir(hdir):
                shutil.copytree(HARNESS, hdir)
                gm = open(os.path.join(hdir, "go.mod")).read().replace("=> /repo", "=> " + REPO)
                open(os.path.join(hdir, "go.mod"), "w").write(gm)
        try:
            shutil.copyfile(os.path.join(REPO, "go.sum"), os.path.join(hdir, "go.sum"))
        except OSError as e:
            raise Infra("cannot copy go.sum: %s" % e)
        out = self.path("gv-race" if race else "gv")
        cmd = ["go", "build", "-tags", "verif"] + (["-race"] if race else []) + ["-o", out, "./cmd/gv"]
        t = time.time()
        p = subprocess.run(cmd, cwd=hdir, env=env, stdout=subprocess.PIPE, stderr=subprocess.STDOUT, text=True, timeout=900)
        if p.returncode != 0:
            raise Infra("harness build failed (does /repo still compile?):\n" + p.stdout[-4000:])
        log("[build] %s %.1fs" % (os.path.basename(out), time.time() - t))
        if not race:
            self.gv = out
        return out

    def harness(self, args, timeout=600, binary=None, env=None, check=True, stdin=None):
        b = binary or self.gv or self.build()
        e = dict(os.environ)
        e["VERIF_SEED"] = str(self.seed)
        if env:
            e.update(env)
        t = time.time()
        try:
            p = subprocess.run([b] + [str(a) for a in args], cwd=self.work, env=e, stdout=subprocess.PIPE,
                               stderr=subprocess.PIPE, text=True, timeout=timeout, input=stdin)
        except subprocess.TimeoutExpired as ex:
            raise Infra("harness %s timed out after %ds" % (args[:2], timeout))
        log("[gv %s] rc=%d %.1fs" % (" ".join(str(a) for a in args[:3]), p.returncode, time.time() - t))
        if check and p.returncode != 0:
            raise Infra("harness %s failed rc=%d:\n%s\n%s" % (args[:3], p.returncode, p.stdout[-2000:], p.stderr[-4000:]))
        return p

    # ------------------------------------------------------------------ TLC
    def tlc(self, module, cfg, env=None, workers="auto", timeout=900, simulate=None, depth=None,
            cont=False, extra=None, deadlock=False, dfs=False, heap=None, coverage=False, cdot=False, soft_timeout=False):
        """Run TLC on spec/<module>.tla with config text cfg. Returns TLCResult."""
        self.nmeta += 1
        cfgname = "%s_%d.cfg" % (module, self.nmeta)
        with open(os.path.join(self.specdir, cfgname), "w") as f:
            f.write(cfg)
        meta = self.path("meta%d" % self.nmeta)
        cmd = ["tlc", "-metadir", meta, "-noGenerateSpecTE", "-workers", str(workers), "-config", cfgname]
        if simulate:
            cmd += ["-simulate", simulate]
        if depth:
            cmd += ["-depth", str(depth)]
        if cont:
            cmd += ["-continue"]
        if deadlock:
            cmd += ["-deadlock"]
        if coverage:
            cmd += ["-coverage", "1"]
        if extra:
            cmd += extra
        cmd += [module + ".tla"]
        e = dict(os.environ)
        jopts = []
        if dfs:
            jopts.append("-Dtlc2.tool.queue.IStateQueue=StateDeque")
        if heap:
            jopts.append("-Xmx%s" % heap)
        if cdot:
            jopts.append("-Dtlc2.tool.impl.Tool.cdot=true")   # action composition (GldapRefine.tla)
            jopts.append("-Xss512m")
        if jopts:
            e["JAVA_TOOL_OPTIONS"] = " ".join(jopts)
        if env:
            e.update({k: str(v) for k, v in env.items()})
        t = time.time()
        try:
            p = subprocess.run(["timeout", "-k", "5", str(timeout)] + cmd, cwd=self.specdir, env=e,
                               stdout=subprocess.PIPE, stderr=subprocess.STDOUT, text=True, errors="replace")
        except Exception as ex:
            raise Infra("cannot run tlc: %s" % ex)
        dt = time.time() - t
        shutil.rmtree(meta, ignore_errors=True)
        res = TLCResult(module, cfgname, p.returncode, p.stdout, dt)
        self.tlc_cmds.append(" ".join(cmd) + "  # %.1fs, %d generated / %d distinct" % (dt, res.generated, res.distinct))
        log("[tlc %s] rc=%d %.1fs gen=%d distinct=%d viol=%d" % (module, p.returncode, dt, res.generated, res.distinct, len(res.violations)))
        if p.returncode == 124 or p.returncode == 137:
            if soft_timeout:
                res.timed_out = True
                return res
            raise Infra("tlc %s timed out after %ds" % (module, timeout))
        if res.fatal:
            sys.stderr.write(p.stdout[-6000:])
            raise Infra("tlc %s failed: %s" % (module, res.fatal))
        return res


class TLCResult:
    def __init__(self, module, cfg, rc, out, dt):
        self.module, self.cfg, self.rc, self.out, self.dt = module, cfg, rc, out, dt
        self.timed_out = False
        self.generated = self.distinct = 0
        m = re.findall(r"(\d+) states generated, (\d+) distinct states found", out)
        if m:
            self.generated, self.distinct = int(m[-1][0]), int(m[-1][1])
        else:
            m = re.findall(r"Progress: (\d+) states checked", out)  # simulation mode
            if m:
                self.generated = self.distinct = int(m[-1])
        m = re.search(r"The depth of the complete state graph search is (\d+)", out)
        self.depth = int(m.group(1)) if m else 0
        self.violations = parse_violations(out)
        self.fatal = None
        ok_end = "Model checking completed" in out or "Finished in" in out
        benign = ("is violated", "The behavior up to this point is", "Temporal properties were violated",
                  "Deadlock reached", "The following behavior constitutes a counter-example")
        for l in out.splitlines():
            if l.startswith("Error:") and not any(b in l for b in benign):
                idx = out.index(l)
                self.fatal = out[idx:idx + 1500]
                break
        if "Parsing or semantic analysis failed" in out:
            self.fatal = "parse error: " + "\n".join(x for x in out.splitlines() if "rror" in x or "line " in x)[:1500]
        if not ok_end and not self.fatal and not self.violations:
            self.fatal = "no completion message"
        self.coverage = parse_coverage(out)


def parse_violations(out):
    """Return [{'kind','name','states':[{'action','vars':{name:text}}]}]"""
    res = []
    lines = out.splitlines()
    i = 0
    cur = None
    while i < len(lines):
        l = lines[i]
        m = re.match(r"Error: Invariant (\S+) is violated", l)
        m2 = re.match(r"Error: Action property (\S+) is violated", l)
        m3 = re.match(r"Error: Temporal properties were violated", l)
        m4 = re.match(r"Error: Deadlock reached", l)
        if m or m2 or m3 or m4:
            cur = {"kind": "invariant" if m else "action" if m2 else "temporal" if m3 else "deadlock",
                   "name": (m or m2).group(1) if (m or m2) else "", "states": []}
            res.append(cur)
            if "by the initial state" in l:
                i += 1
                buf = []
                while i < len(lines) and lines[i].strip() != "" and not lines[i].startswith("Error:"):
                    buf.append(lines[i])
                    i += 1
                st = {"action": "Initial predicate", "vars": {}}
                for part in re.split(r"(?m)^/\\ ", "\n".join(buf)):
                    mm = re.match(r"(\w+) = (.*)", part, re.S)
                    if mm:
                        st["vars"][mm.group(1)] = mm.group(2).strip()
                cur["states"].append(st)
                continue
        sm = re.match(r"State (\d+): <?(.*?)>?$", l)
        if sm and cur is not None:
            st = {"action": sm.group(2), "vars": {}}
            i += 1
            buf = []
            while i < len(lines) and lines[i].strip() != "" and not lines[i].startswith("State ") and not lines[i].startswith("Error:"):
                buf.append(lines[i])
                i += 1
            text = "\n".join(buf)
            for part in re.split(r"(?m)^/\\ ", text):
                mm = re.match(r"(\w+) = (.*)", part, re.S)
                if mm:
                    st["vars"][mm.group(1)] = mm.group(2).strip()
            cur["states"].append(st)
            continue
        i += 1
    return res


def parse_coverage(out):
    cov = {}
    for m in re.finditer(r"<(\w+) line \d+, col \d+ to line \d+, col \d+ of module (\w+)>: (\d+):(\d+)", out):
        cov[m.group(1)] = cov.get(m.group(1), 0) + int(m.group(4))
    return cov


# ---------------------------------------------------------------------- files
def read_ndjson(path):
    out = []
    with open(path) as f:
        for line in f:
            line = line.strip()
            if line:
                out.append(json.loads(line))
    return out


def write_ndjson(path, rows):
    with open(path, "w") as f:
        for r in rows:
            f.write(json.dumps(r, separators=(",", ":")) + "\n")


def known_findings():
    p = os.path.join(ROOT, "known_findings.json")
    if not os.path.exists(p):
        return []
    return json.load(open(p)).get("entries", [])


def match_known(pid, signature):
    """signature: dict; an entry of kind 'finding' matches if property equals and every key of its
    signature equals the violation's signature value."""
    for e in known_findings():
        if e.get("kind") != "finding" or e.get("property") != pid:
            continue
        sig = e.get("signature", {})
        if all(signature.get(k) == v for k, v in sig.items()):
            return e
    return None


def finish(run, level, coverage, violations, assumptions, extra=None):
    """violations: [{'signature':{...}, 'what': str, 'replay': {...json...}}].
    Writes evidence, replay files, prints verdict lines, returns exit code."""
    outroot = ROOT if REPO == "/repo" else run.path("out")
    os.makedirs(os.path.join(outroot, "evidence"), exist_ok=True)
    new, known = [], []
    seen_sig = set()
    for v in violations:
        key = json.dumps(v.get("signature", {}), sort_keys=True)
        k = match_known(run.id, v.get("signature", {}))
        if k:
            if key not in seen_sig:
                known.append((k, v))
        else:
            new.append(v)
        seen_sig.add(key)
    for k, v in known:
        print("KNOWN-FINDING: property=%s %s" % (run.id, k.get("what", v.get("what", ""))))
    rc = 0
    if new:
        rdir = os.path.join(outroot, "replays", run.id)
        os.makedirs(rdir, exist_ok=True)
        printed = set()
        for n, v in enumerate(new[:20]):
            h = hashlib.sha1(json.dumps(v.get("replay", v), sort_keys=True, default=str).encode()).hexdigest()[:10]
            path = os.path.join(rdir, "%s-%s-%s.json" % (run.tier, run.seed, h))
            with open(path, "w") as f:
                json.dump({"property": run.id, "tier": run.tier, "seed": run.seed, "what": v.get("what"),
                           "signature": v.get("signature"), "replay": v.get("replay")}, f, indent=1, default=str)
            if path not in printed:
                log("  violation: %s" % v.get("what"))
                print("VIOLATION property=%s replay=%s" % (run.id, path))
                printed.add(path)
        rc = 1
    coverage = dict(coverage)
    coverage.setdefault("checker_cmd", "; ".join(run.tlc_cmds)[:4000])
    ev = {"property_id": run.id, "tier": run.tier, "seed": int(run.seed), "level": level, "coverage": coverage,
          "assumptions": assumptions, "wall_s": round(time.time() - run.t0, 2), "violations": len(new),
          "known_findings_reported": len(known)}
    if extra:
        ev.update(extra)
    with open(os.path.join(outroot, "evidence", run.id + ".json"), "w") as f:
        json.dump(ev, f, indent=1, default=str)
    _EVIDENCE_RUNS.append(ev)
    log("[%s %s seed=%s] violations=%d known=%d wall=%.1fs" % (run.id, run.tier, run.seed, len(new), len(known), ev["wall_s"]))
    return rc


_EVIDENCE_RUNS = []


def merge_evidence(pid, per_seed):
    """thorough tier with several seeds: the evidence file describes all of them (counts summed, distinct counts of the
    largest run - the symbolic cases are the same, their concretisations differ)"""
    outroot = ROOT if REPO == "/repo" else None
    if outroot is None or not _EVIDENCE_RUNS:
        return
    last = dict(_EVIDENCE_RUNS[-1])
    cov = dict(last["coverage"])
    for k in ("evaluations", "traces_validated_against_impl", "transitions"):
        if all(isinstance(e["coverage"].get(k), int) for e in _EVIDENCE_RUNS):
            cov[k] = sum(e["coverage"][k] for e in _EVIDENCE_RUNS)
    for k in ("distinct_nontrivial", "states"):
        if all(isinstance(e["coverage"].get(k), int) for e in _EVIDENCE_RUNS):
            cov[k] = max(e["coverage"][k] for e in _EVIDENCE_RUNS)
    cov["seeds"] = [{"seed": e["seed"], "evaluations": e["coverage"].get("evaluations"), "violations": e["violations"], "wall_s": e["wall_s"]} for e in _EVIDENCE_RUNS]
    last["coverage"] = cov
    last["seed"] = _EVIDENCE_RUNS[0]["seed"]
    last["wall_s"] = round(sum(e["wall_s"] for e in _EVIDENCE_RUNS), 2)
    last["violations"] = sum(e["violations"] for e in _EVIDENCE_RUNS)
    with open(os.path.join(outroot, "evidence", pid + ".json"), "w") as f:
        json.dump(last, f, indent=1, default=str)
