"""C18: see props/lifecycle.py (Gldap.tla, Scen.tla, GldapTrace.tla)."""
from props import lifecycle


def check(run):
    return lifecycle.check(run, "C18", ["tls-server", "tls-mtls"])


def replay(run, path):
    return lifecycle.replay(run, "C18", path)
