"""C18: see props/lifecycle.py (Gldap.tla, Scen.tla, GldapTrace.tla)."""
from props import lifecycle


import json
import vlib


def td_part(run):
    """the real test directory (WithMTLS / default TLS) against every client kind; validated with TdTlsTrace"""
    obs = run.path("o18td.ndjson")
    run.harness(["c18td", "-out", obs], timeout=600)
    rows = vlib.read_ndjson(obs)
    res = run.tlc("TdTlsTrace", "INIT InitT\nNEXT NextT\nINVARIANT OnlySatisfyingClientsAreServed\nCHECK_DEADLOCK FALSE\n", env={"OBS": obs}, workers=1, cont=True, timeout=600)
    viols, seen = [], set()
    for v in res.violations:
        if v["states"]:
            l = int(v["states"][-1]["vars"].get("l", "0"))
            if 1 <= l <= len(rows):
                o = rows[l - 1]
                key = (o["mode"], o["kind"], o["served"])
                if key in seen:
                    continue
                seen.add(key)
                viols.append({"signature": {"monitor": "OnlySatisfyingClientsAreServed", "mode": o["mode"], "kind": o["kind"], "served": o["served"]},
                              "what": "test directory (%s): a %s client was %s" % (o["mode"], o["kind"], "served" if o["served"] else "not served: " + o["detail"]),
                              "replay": {"observation": o}})
    return viols, len(rows)


def check(run):
    return lifecycle.check(run, "C18", ["tls-server", "tls-mtls", "tls-anycert"], extra=td_part)


def replay(run, path):
    return lifecycle.replay(run, "C18", path)
