"""C15: no data races inside gldap under any concurrent use - the Go race detector on model-generated schedules."""
import json, os, re
import vlib
from props import scen, lifecycle, dir20

ASSUME = ["level: exploration - the race detector generalises each observed execution to all executions with the same synchronisation structure; "
          "the specification contributes the schedules (Scen.tla behaviours incl. gated ones, Writer rounds, Directory behaviours)",
          "a report counts only if one of its stacks has a frame in github.com/jimlambrt/gldap (races inside the harness itself are ignored)"]


def parse_races(text):
    """returns [{'sites': [site_a, site_b], 'gldap': bool, 'text': str}]"""
    out = []
    for block in re.split(r"(?m)^WARNING: DATA RACE$", text)[1:]:
        block = block.split("==================")[0]
        stacks = re.split(r"(?m)^(?:Previous |Read |Write |Goroutine )", "\n" + block)
        sites = []
        # the two accesses: first gldap frame (or first frame) of the access stacks
        for acc in re.findall(r"(?ms)^(?:Read|Write|Previous read|Previous write) at .*?\n((?:  \S.*\n(?:      \S.*\n)?)+)", block):
            frames = re.findall(r"(?m)^  (\S+)\(.*?\n\s+(\S+):(\d+)", acc)
            g = [f for f in frames if f[0].startswith("github.com/jimlambrt/gldap")]
            f = (g or frames or [("?", "?", "0")])[0]
            sites.append("%s %s:%s" % (f[0], os.path.basename(f[1]), f[2]))
        gl = "github.com/jimlambrt/gldap" in block
        out.append({"sites": sorted(sites[:2]), "gldap": gl, "text": block[:3000]})
    return out


def check(run):
    q = run.quick()
    run.build()
    race = run.build(race=True)
    # design level: the life-cycle model (its locking discipline is what the variants RegisterLocked etc. are about)
    mc = scen.design_check(run, lifecycle.LIVE, lifecycle.DESIGN_INV, workers=4)
    reports, nscen = [], 0
    # 1. life-cycle behaviours (including StartTLS upgrades, Stop, teardown) under -race
    fams = (["general", "pipeline", "stop", "starttls", "starttls2", "starttls-inflight", "starttls-adversarial", "stopstates", "panic", "tls-close", "timeout", "outliving", "long"]
            if not q else ["general", "pipeline", "starttls2", "stop2", "starttls", "starttls-inflight", "tls-close", "long"])
    scenarios, stats = lifecycle.run_families(run, fams, cap=150 if q else 1500)
    # the runner's own synchronisation (it waits for a released handler to finish before its next action) orders many accesses
    # that gldap itself does not order: every third scenario with a release is run once more with handlers that finish on
    # their own time, unsynchronised with the runner's next actions
    pause = {"a": "sleep", "c": "", "i": 150, "k": "", "s": "", "hold": False}
    extra = []
    for s in scenarios:
        if s["cfg"].get("async_release") or not any(e["a"] == "release" for e in s["behaviour"]):
            continue
        if len(extra) * 3 < len(scenarios):
            ms = ("40", "120", "300")[len(extra) % 3]
            extra.append({"id": len(scenarios) + len(extra) + 1, "cfg": dict(s["cfg"], async_release="1", async_ms=ms),
                          "behaviour": s["behaviour"] + [dict(pause, i=110 + int(ms))]})
    scenarios += extra
    sfile = run.path("scen.ndjson")
    vlib.write_ndjson(sfile, scenarios)
    trace = run.path("trace.ndjson")
    run.harness(["scen", "-in", sfile, "-out", trace, "-par", "8", "-bin", race], timeout=3000, binary=race)
    nscen += len(scenarios)
    if os.path.exists(trace + ".stderr"):
        reports += parse_races(open(trace + ".stderr").read())
    # 2. concurrent writers (C05 rounds)
    p = run.harness(["c05", "-out", run.path("t05.ndjson"), "-tier", "quick"], timeout=3000, binary=race, check=False)
    reports += parse_races(p.stderr)
    # 3. the test directory: behaviours of Directory.tla with getters / Set* called concurrently
    behs = dir20.behaviours_of(run.tlc("Dir20", dir20.MC_CFG % (2, "all", " Emit"), workers=4, timeout=1800).out)
    bfile = run.path("b20.ndjson")
    vlib.write_ndjson(bfile, [{"behaviour": b} for b in behs[:400 if q else 4000]])
    p = run.harness(["c20", "-in", bfile, "-out", run.path("o20.ndjson"), "-par", "8", "-churn"], timeout=3000, binary=race, check=False)
    reports += parse_races(p.stderr)
    viols, seen = [], set()
    for r in reports:
        if not r["gldap"]:
            continue
        key = json.dumps(r["sites"])
        if key in seen:
            continue
        seen.add(key)
        viols.append({"signature": {"sites": r["sites"]}, "what": "data race between %s" % " and ".join(r["sites"]), "replay": {"report": r["text"]}})
    cov = {"evaluations": nscen + len(behs[:400 if q else 4000]) + 1, "distinct_nontrivial": max(2, len({json.dumps(s["cfg"]) + s["cfg"].get("family", "") for s in scenarios})),
           "rule": "executions under the race detector: life-cycle behaviours of Scen.tla (families %s), the concurrent-writer rounds of C05, and Directory behaviours with "
                   "getters / SetControls / SetTokenGroups called concurrently; distinct = scenario families x configurations" % ", ".join(fams),
           "samples": [{"family": s["cfg"].get("family"), "env": [[e["a"], e["c"], e["i"]] for e in s["behaviour"] if e["a"] in scen.ENV][:12]} for s in scenarios[:2]],
           "race_reports_total": len(reports), "race_reports_without_gldap_frame": sum(1 for r in reports if not r["gldap"]),
           "states": mc.distinct, "transitions": mc.generated}
    return vlib.finish(run, "exploration", cov, viols, ASSUME)


def replay(run, path):
    print(json.load(open(path))["replay"].get("report", ""))
    return check(run)
