"""C03: exactly one handler, the first matching route (Mux.tla)."""
import json, os, re
import vlib

ASSUME = ["symbol abstraction: routes/requests range over the alphabets of spec/Mux.tla; the harness maps symbols to "
          "concrete strings (case variants included) chosen per VERIF_SEED",
          "OnClose is used as the barrier after which all handlers of a connection have returned"]


def cfg_mc(maxroutes, maxgen, alphabet):
    return ("CONSTANTS MaxRoutes = %d MaxGen = %d Alphabet = \"%s\"\nSPECIFICATION MuxSpec\n"
            "INVARIANTS TypeOK C03Design\nCHECK_DEADLOCK FALSE\n"
            % (maxroutes, maxgen, alphabet))


def generate(run, genlen, alphabet, tag):
    out = run.path("vec_%s.ndjson" % tag)
    cfg = "CONSTANTS MaxRoutes = %d MaxGen = 2 Alphabet = \"%s\" GenLen = %d\nINIT Init\nNEXT Next\n" % (genlen, alphabet, genlen)
    run.tlc("MuxGen", cfg, env={"OUT": out}, workers=1, timeout=600)
    return out


def validate(run, obs, alphabet):
    cfg = ("CONSTANTS MaxRoutes = 3 MaxGen = 2 Alphabet = \"%s\"\nINIT Init\nNEXT Next\n"
           "INVARIANTS HandlerConforms RefusalConforms AnsweredOnce UnbindConforms\nCHECK_DEADLOCK FALSE\n" % alphabet)
    return run.tlc("MuxTrace", cfg, env={"OBS": obs}, workers=1, cont=True, timeout=1200, heap="8g")


def violations_from(res, rows):
    viols = []
    seen = set()
    for v in res.violations:
        if not v["states"]:
            continue
        l = int(v["states"][-1]["vars"].get("l", "0"))
        if (v["name"], l) in seen or l < 1 or l > len(rows):
            continue
        seen.add((v["name"], l))
        o = rows[l - 1]
        # find the first request of the table the monitor complains about (printed by the spec)
        what = "%s false for table vid=%s routes=%s def=%s unb=%s" % (v["name"], o.get("vid"), json.dumps(o.get("routes")), o.get("def"), o.get("unb"))
        viols.append({"signature": {"monitor": v["name"], "routes": o.get("routes"), "def": o.get("def"), "unb": o.get("unb")},
                      "what": what, "replay": {"vector": {"kind": "table", "routes": o.get("routes"), "def": o.get("def"), "unb": o.get("unb")},
                                               "observation": o, "monitor": v["name"]}})
    return viols


def check(run):
    quick = run.quick()
    run.build()
    # (a) design: every table reachable by registration, every request
    mc = run.tlc("Mux", cfg_mc(2, 2, "full") if quick else cfg_mc(3, 2, "reduced"), workers=8, timeout=1800)
    if mc.violations:
        raise vlib.Infra("design model Mux.tla violates %s (model-only; fix the spec)" % mc.violations[0]["name"])
    states, trans = mc.distinct, mc.generated
    if not quick:
        mc2 = run.tlc("Mux", cfg_mc(2, 2, "full"), workers=8, timeout=1800)
        if mc2.violations:
            raise vlib.Infra("design model Mux.tla violates %s" % mc2.violations[0]["name"])
        states += mc2.distinct
        trans += mc2.generated
    # (b) vectors from the spec, replayed on the real Mux + server
    sets = [("full", 2)] + ([] if quick else [("reduced", 3)])
    viols, nvec, nobs, nontrivial, samples, errs = [], 0, 0, 0, [], 0
    reqs = None
    for alphabet, genlen in sets:
        vec = generate(run, genlen, alphabet, alphabet)
        obs = run.path("obs_%s.ndjson" % alphabet)
        run.harness(["c03", "-in", vec, "-out", obs, "-par", "16"], timeout=3000)
        rows = vlib.read_ndjson(obs)
        nvec += len(rows)
        bad_rows = [r for r in rows if r.get("err")]
        if bad_rows:
            errs += len(bad_rows)
        # (c) conformance: TLC evaluates the C03 monitors on every observation
        res = validate(run, obs, alphabet)
        viols += violations_from(res, rows)
        for r in rows:
            nobs += len(r["obs"])
            if len(r["routes"]) >= 2 or r["def"] > 1 or r["unb"] > 0:
                nontrivial += 1
        samples += [{"routes": r["routes"], "def": r["def"], "unb": r["unb"], "first_requests": r["obs"][:3]} for r in rows[1:len(rows):max(1, len(rows) // 3)][:3]]
    if errs and not viols:
        raise vlib.Infra("%d tables could not be exercised (harness error): %s" % (errs, [r.get("err") for r in bad_rows[:3]]))
    cov = {"states": states, "transitions": trans, "traces_validated_against_impl": nvec, "samples": samples,
           "evaluations": nobs, "distinct_nontrivial": nontrivial, "exhaustive": True,
           "rule": "every route table of length <= 2 over the full 54-route alphabet (thorough: + length <= 3 over the reduced alphabet) x "
                   "default/unbind re-registrations, each crossed with all 44 requests; one observation per (table, request); "
                   "non-trivial = table with >= 2 routes or a re-registered default or an unbind route",
           "explanation": "TLC checks FirstMatchWins/DefaultOnlyIfNoMatch/RefusalHasOperationsResponseTag/ExactlyOne on Mux.tla, emits the tables "
                          "(MuxGen), the harness builds each through the public Mux API on a real server and sends every request as bytes, and "
                          "TLC (MuxTrace) evaluates the monitors HandlerConforms/RefusalConforms/AnsweredOnce/UnbindConforms on what was observed"}
    return vlib.finish(run, "model_checking", cov, viols, ASSUME)


def replay(run, path):
    rp = json.load(open(path))
    run.build()
    vec = run.path("replay_vec.ndjson")
    # regenerate the request list from the spec, then run the single table
    full = generate(run, 1, "full", "rp")
    reqline = open(full).readline()
    with open(vec, "w") as f:
        f.write(reqline)
        f.write(json.dumps(rp["replay"]["vector"]) + "\n")
    obs = run.path("replay_obs.ndjson")
    run.harness(["c03", "-in", vec, "-out", obs, "-par", "1"])
    rows = vlib.read_ndjson(obs)
    res = validate(run, obs, "full")
    viols = violations_from(res, rows)
    for v in viols:
        print("REPRODUCED property=C03 %s" % v["what"])
    print("replay: %d violation(s)" % len(viols))
    return 1 if viols else 0
