"""C19: test directory bind succeeds only with the right credentials (Directory.tla / Dir19.tla)."""
import json
import vlib
from props import dir20

ASSUME = ["symbols d1/d1x/D1/dz, p/q are mapped per VERIF_SEED to concrete DNs (d1 a proper prefix of d1x, D1 a case variant) and "
          "passwords (p a proper prefix of q; binary and 300-byte variants)",
          "user entries are installed with Directory.SetUsers, the flag with SetAllowAnonymousBind"]


def mc_cfg(n):
    return "CONSTANTS MaxUsers = %d\nSPECIFICATION Spec19\nINVARIANT C19Inv\nCHECK_DEADLOCK FALSE\n" % n


def gen(run, n):
    out = run.path("v19.ndjson")
    run.tlc("Dir19Gen", "CONSTANTS MaxUsers = %d\nINIT Init19\nNEXT Next19\n" % n, env={"OUT": out}, workers=1, timeout=900)
    return out


def validate(run, obs, n):
    cfg = "CONSTANTS MaxUsers = %d\nINIT InitT\nNEXT NextT\nINVARIANTS BindConforms OnlyTwoCodes\nCHECK_DEADLOCK FALSE\n" % n
    return run.tlc("Dir19Trace", cfg, env={"OBS": obs}, workers=1, cont=True, timeout=1800, heap="8g")


def viols_from(res, rows):
    out, seen = [], set()
    for v in res.violations:
        if not v["states"]:
            continue
        l = int(v["states"][-1]["vars"].get("l", "0"))
        if l < 1 or l > len(rows) or (v["name"], l) in seen:
            continue
        seen.add((v["name"], l))
        o = rows[l - 1]
        out.append({"signature": {"monitor": v["name"], "users": o["users"], "anon": o["anon"]},
                    "what": "%s false for users=%s anon=%s" % (v["name"], json.dumps(o["users"]), o["anon"]),
                    "replay": {"vector": {"users": o["users"], "anon": o["anon"]}, "observation": o}})
    return out


def check(run):
    n = 2 if run.quick() else 3
    run.build()
    mc = run.tlc("Dir19", mc_cfg(n), workers=4, timeout=1800)
    if mc.violations:
        raise vlib.Infra("design model violates %s (model-only)" % mc.violations[0]["name"])
    vec = gen(run, n)
    obs = run.path("o19.ndjson")
    run.harness(["c19", "-in", vec, "-out", obs, "-par", "8"], timeout=3000)
    rows = vlib.read_ndjson(obs)
    res = validate(run, obs, n)
    viols = viols_from(res, rows)
    # history part: binds inside add/modify/delete/Set* sequences (Dir20 behaviours), monitor BindConforms
    hp = dir20.run_pipeline(run, 3, 10, 40, 300, focus="bind", bgbind=True) if run.quick() else dir20.run_pipeline(run, 4, 24, 200, 3000, focus="bind", bgbind=True)
    viols += dir20.viols_from("C19", hp["res"], hp["rows"], {"BindConforms", "BackgroundBindsConform"})
    nhist = sum(1 for r in hp["rows"] if r["op"] == "bind")
    nb = sum(len(r["binds"]) * 3 for r in rows)
    nontriv = len({json.dumps(r["users"]) for r in rows if len(r["users"]) >= 1})
    cov = {"states": mc.distinct, "transitions": mc.generated, "traces_validated_against_impl": len(rows),
           "samples": [rows[i] for i in (0, len(rows) // 2, len(rows) - 1)][:3] if rows else [],
           "evaluations": nb + nhist, "history_binds": nhist, "history_behaviours": len(hp["behaviours"]), "distinct_nontrivial": nontriv, "exhaustive": True,
           "rule": "every user set of <= %d entries over DNs {d1, d1x (d1 is its prefix), D1 (case variant)} x password attribute "
                   "{absent, no values, [\"\"], [p], [p,q], [q,p]} x AllowAnonymousBind, each crossed with binds over DN {\"\", d1, d1x, D1, unknown} x "
                   "password {\"\", p, q} on plain, TLS and StartTLS connections; non-trivial = distinct non-empty user set" % n}
    return vlib.finish(run, "model_checking", cov, viols, ASSUME)


def replay(run, path):
    rp = json.load(open(path))
    if "behaviour" in rp["replay"]:
        return dir20.replay(run, "C19", path, {"BindConforms"})
    run.build()
    full = gen(run, 1)
    bl = open(full).readline()
    vec = run.path("rv.ndjson")
    with open(vec, "w") as f:
        f.write(bl)
        f.write(json.dumps(rp["replay"]["vector"]) + "\n")
    obs = run.path("ro.ndjson")
    run.harness(["c19", "-in", vec, "-out", obs, "-par", "1"])
    rows = vlib.read_ndjson(obs)
    viols = viols_from(validate(run, obs, 3), rows)
    for v in viols:
        print("REPRODUCED property=C19 %s" % v["what"])
    print("replay: %d violation(s)" % len(viols))
    return 1 if viols else 0
