"""Refinement check: recorded executions of the real server are behaviours of Gldap.tla (GldapRefine.tla)."""
import json, re
import vlib
from props import scen

KEEP = {"env_begin", "run_call", "gate", "run_ret", "ready", "hstart", "hunbind", "hend", "hpanic", "onclose_in", "onclose_out",
        "stop_call", "stop_ret", "dial", "send", "close", "stopreading", "eof", "timeout"}
FIELDS = ("seq", "ev", "c", "conn", "req", "i", "k", "s", "val")
CONSTS = {"Conns": "{" + ", ".join('"c%d"' % i for i in range(1, 13)) + "}", "MaxReq": "64", "Stoppers": '{"s1", "s2"}',
          "FrameKinds": '{"op", "unbind", "starttls", "bad", "partial"}'}


INV_OF = {"ReqIDsInOrder": "C06", "NothingAfterUnbind": "C10", "Alive": "C07", "OnCloseAtMostOnce": "C08", "OnCloseAfterHandlers": "C08",
          "SocketClosedAfterHandlers": "C08", "ConnIDsUnique": "C09", "QuiescentAfterStop": "C12", "ReadyImpliesListening": "C17"}


SMALL = dict(CONSTS, Conns='{"c1", "c2", "c3"}', MaxReq="6")


def group_of(cfgv):
    mode = {"tls": '"server"', "mtls": '"mtls"', "mtls-vc": '"mtls"', "anycert": '"anycert"'}.get(cfgv.get("tls", ""), '"none"')
    return (mode, "TRUE" if cfgv.get("expect_run_error") == "1" else "FALSE", "TRUE" if cfgv.get("read_timeout_ms") else "FALSE")


def traces_of(rows, scenarios):
    """per scenario: the per-goroutine queues of its events; scenarios the model has no counterpart for are skipped"""
    by = {}
    for r in rows:
        by.setdefault(r.get("scen"), []).append(r)
    out, skipped = {}, 0
    for sc in scenarios:
        rs = by.get(sc["id"], [])
        cfgv = sc["cfg"]
        if any(r["ev"] in ("emfile", "proc_exit", "cleanup_stop_timeout") for r in rs) or (cfgv.get("ready_dial") == "1" and cfgv.get("expect_run_error") != "1"):
            skipped += 1      # probe connections of the harness itself are not clients of the model
            continue
        if cfgv.get("family") == "starttls-inflight" or cfgv.get("stop_storm") == "1":
            skipped += 1      # a request in flight during the upgrade (non-conforming client; race-detector family): not modelled
            continue
        sends = {}
        for r in rs:
            if r["ev"] == "send":
                sends[r["c"]] = sends.get(r["c"], 0) + 1
        if sends and max(sends.values()) > 60:
            skipped += 1      # very long pipelines: the model's per-request state makes every TLC state expensive
            continue
        procs = {}
        for r in rs:
            if r["ev"] not in KEEP:
                continue
            q = procs.setdefault(r.get("g", 0), [])
            ev = {k: r[k] for k in FIELDS}
            ev["after"] = q[-1]["seq"] if q else 0     # the step happened after the previous line of its goroutine was logged
            q.append(ev)
        if not procs:
            continue
        # small scenarios (the bulk) are replayed with small model constants: TLC's cost per state grows with Conns x MaxReq
        nconn = max([int(c[1:]) for c in {r["c"] for r in rs} if re.fullmatch(r"c\d+", c)] or [1])
        nreq = max(list(sends.values()) or [1])
        size = "small" if nconn <= 3 and nreq <= 6 else "large"
        out.setdefault(group_of(cfgv) + (size,), []).append({"id": sc["id"], "procs": [procs[g] for g in sorted(procs)]})
    return out, skipped


def parse_line(text, tag):
    for l in text.splitlines():
        if l.startswith('"' + tag + ' '):
            return json.loads(json.loads(l)[len(tag) + 1:])
    return None


ROUNDS = (0, 2, 8, 1000000)    # MaxDev per round: traces not accepted in one round are searched again with the next bound


def check(run, rows, scenarios, timeout=1800):
    """returns (accepted ids, rejected [{'id', 'frontier'}], number of traces, skipped); traces whose unbounded search did not
    finish within the budget are neither (counted in run.refine_inconclusive)"""
    groups, skipped = traces_of(rows, scenarios)
    accepted, rejected, n = set(), [], 0
    run.refine_inconclusive = getattr(run, "refine_inconclusive", 0)
    budget = 240 if run.quick() else 1500
    for (mode, lf, rt, size), alltrs in sorted(groups.items()):
        n += len(alltrs)
        trs, fr, seen = alltrs, {}, set()
        for maxdev in ROUNDS:
            if not trs:
                break
            last = maxdev == ROUNDS[-1]
            if last and len(trs) > 40:
                # a tree on which many executions are rejected: the complete search is run for the 40 shortest only
                trs = sorted(trs, key=lambda t: sum(len(q) for q in t["procs"]))
                run.refine_inconclusive += len(trs) - 40
                trs = trs[:40]
            f = run.path("refine_%d.ndjson" % (run.nmeta + 1))
            vlib.write_ndjson(f, trs)
            consts = dict(CONSTS if size == "large" else SMALL, TLSMode=mode, ListenFails=lf, ReadTimeout=rt, MaxDev=str(maxdev),
                          TrackFrontier="TRUE" if maxdev == ROUNDS[-1] else "FALSE")
            body = "INIT RInit\nNEXT RNext\nCONSTRAINT NotYetAccepted\nINVARIANTS %s\nPOSTCONDITION Report\nCHECK_DEADLOCK FALSE\n" % " ".join(INV_OF)
            res = run.tlc("GldapRefine", scen.cfg(consts, body), env={"OBS": f}, workers=1, timeout=budget if last else timeout, dfs=True, heap="12g",
                          cdot=True, cont=True, soft_timeout=last)
            if res.timed_out:
                run.refine_inconclusive += len(trs)      # no verdict from an unfinished search
                trs = []
                break
            if res.fatal:
                raise vlib.Infra("GldapRefine: %s" % res.fatal[:2000])
            acc = parse_line(res.out, "ACCEPTED")
            if acc is None:
                raise vlib.Infra("GldapRefine: no ACCEPTED line\n" + res.out[-3000:])
            acc = set(acc)
            accepted |= acc & {t["id"] for t in trs}
            fr = {x["id"]: x for x in (parse_line(res.out, "FRONTIER") or [])}
            # Gldap's own invariants, evaluated in every state the search visits (all of them are states of Gldap.tla)
            for v in res.violations:
                if not v["states"] or v["name"] not in INV_OF:
                    continue
                t = int(v["states"][-1]["vars"].get("tid", "0"))
                if 1 <= t <= len(trs) and (trs[t - 1]["id"], v["name"]) not in seen:
                    seen.add((trs[t - 1]["id"], v["name"]))
                    rejected.append({"id": trs[t - 1]["id"], "frontier": None, "invariant": [v["name"]]})
            trs = [t for t in trs if t["id"] not in acc]
        for t in trs:      # not accepted with the search unbounded: rejected
            rejected.append({"id": t["id"], "frontier": fr.get(t["id"]), "invariant": []})
    return accepted, rejected, n, skipped


# which recorded steps speak for which property, when the model cannot take them
CLASSES = {
    "C06": {"gate:conn.read", "hstart", "hend"},
    "C07": {"hpanic"},
    "C08": {"gate:conn.teardown.pre_close", "gate:conn.teardown.post_close", "onclose_in", "onclose_out", "eof"},
    "C09": {"gate:run.accepted", "gate:run.registered", "onclose_in", "onclose_out", "hstart"},
    "C10": {"hunbind", "gate:conn.read"},
    "C11": {"stop_ret", "gate:stop.closed", "gate:stop.cancelled", "run_ret"},
    "C12": {"stop_ret", "gate:conn.teardown.pre_done", "run_ret"},
    "C13": {"hend", "gate:conn.read"},
    "C17": {"gate:run.pre_listen", "gate:run.post_listen", "ready", "run_ret"},
    "C18": {"gate:conn.read", "hstart"},
}


def blocked_of(rej):
    fr = rej.get("frontier") or {}
    out = []
    for e in fr.get("pending", []):
        if e.get("ripe"):
            out.append((("gate:" + e["k"]) if e["ev"] == "gate" else e["ev"], e))
    return out


def violations(pid, rejected, rows, scenarios):
    """rejected traces whose blocked steps (logged, all their predecessors replayed, and yet not a step of Gldap.tla) speak for pid"""
    by_id = {s["id"]: s for s in scenarios}
    out = []
    for rj in rejected:
        bl = blocked_of(rj)
        mine = [e for k, e in bl if k in CLASSES.get(pid, set())]
        inv = [i for i in rj.get("invariant", []) if INV_OF.get(i) == pid]
        if not mine and not inv:
            continue
        sc = by_id.get(rj["id"], {})
        envs = [[e["a"], e["c"], e["i"], e["k"], e["hold"]] for e in sc.get("behaviour", []) if e["a"] in scen.ENV]
        if inv:
            out.append({"signature": {"monitor": "Refinement:" + inv[0], "cfg": sc.get("cfg"), "env": envs},
                        "what": "invariant %s of Gldap.tla is false in a state of the replayed execution; scenario %s %s" % (inv[0], json.dumps(sc.get("cfg")), json.dumps(envs)),
                        "replay": {"scenario": sc, "monitor": "Refinement:" + inv[0], "trace": [r for r in rows if r.get("scen") == rj["id"] and r["ev"] != "expect"][:400]}})
            continue
        what = ", ".join("%s%s(conn %s, req %s)" % (e["ev"], ":" + e["k"] if e["k"] else "", e["conn"], e["req"]) for e in mine[:3])
        out.append({"signature": {"monitor": "Refinement", "cfg": sc.get("cfg"), "env": envs},
                    "what": "the recorded execution is not a behaviour of Gldap.tla: after %d replayed events the model cannot take the logged step(s) %s; scenario %s %s"
                            % ((rj.get("frontier") or {}).get("n", 0), what, json.dumps(sc.get("cfg")), json.dumps(envs)),
                    "replay": {"scenario": sc, "monitor": "Refinement", "frontier": rj.get("frontier"),
                               "trace": [r for r in rows if r.get("scen") == rj["id"] and r["ev"] != "expect"][:400]}})
    return out


def tamper_variants(tr):
    """corrupted copies of an accepted trace: each must be rejected (the refinement check is bound to what was recorded)"""
    import copy
    out = []

    def find(t, pred):
        for pi, q in enumerate(t["procs"]):
            for ei, e in enumerate(q):
                if pred(e):
                    return pi, ei
        return None

    def renumber(t):
        for q in t["procs"]:
            prev = 0
            for e in q:
                e["after"] = prev
                prev = e["seq"]
        return t

    # 1. connWg.Done announced before OnClose (order inside the connection goroutine)
    t = copy.deepcopy(tr)
    a, b = find(t, lambda e: e["ev"] == "onclose_in"), find(t, lambda e: e["ev"] == "gate" and e["k"] == "conn.teardown.pre_done")
    if a and b and a[0] == b[0]:
        q = t["procs"][a[0]]
        ev = q.pop(b[1])
        q.insert(a[1], ev)
        q[a[1]]["seq"], q[a[1] + 1]["seq"] = q[a[1] + 1]["seq"], q[a[1]]["seq"]
        out.append(("pre_done before onclose", renumber(t)))
    # 2. the registration step is missing
    t = copy.deepcopy(tr)
    a = find(t, lambda e: e["ev"] == "gate" and e["k"] == "run.registered")
    if a:
        t["procs"][a[0]].pop(a[1])
        out.append(("run.registered dropped", renumber(t)))
    # 3. a request read on a connection id nobody was given
    t = copy.deepcopy(tr)
    a = find(t, lambda e: e["ev"] == "gate" and e["k"] == "conn.read")
    if a:
        t["procs"][a[0]][a[1]]["conn"] += 7
        out.append(("conn.read on an unknown connection id", t))
    # 4. a request id that skips one
    t = copy.deepcopy(tr)
    if a:
        t["procs"][a[0]][a[1]]["req"] += 1
        out.append(("conn.read with a request id that skips one", t))
    # 5. Stop returns before it cancelled the context
    t = copy.deepcopy(tr)
    a, b = find(t, lambda e: e["ev"] == "gate" and e["k"] == "stop.cancelled"), find(t, lambda e: e["ev"] == "stop_ret")
    if a and b and a[0] == b[0]:
        q = t["procs"][a[0]]
        q[a[1]], q[b[1]] = q[b[1]], q[a[1]]
        q[a[1]]["seq"], q[b[1]]["seq"] = q[b[1]]["seq"], q[a[1]]["seq"]
        out.append(("stop_ret before stop.cancelled", renumber(t)))
    # 6. a handler returns for a request that was never read
    t = copy.deepcopy(tr)
    a = find(t, lambda e: e["ev"] == "hend")
    if a:
        t["procs"][a[0]][a[1]]["req"] += 5
        out.append(("hend of a request never dispatched", t))
    return out


def selftest(run, rows, scenarios, accepted):
    """returns (number of corrupted traces, descriptions of those that were accepted - must be empty); the trace that is
    corrupted is one the refinement check has accepted"""
    groups, _ = traces_of(rows, scenarios)
    trs = [t for t in groups.get(('"none"', "FALSE", "FALSE", "small"), []) if t["id"] in accepted]
    pick = None
    for t in trs:
        evs = [e for q in t["procs"] for e in q]
        if any(e["ev"] == "stop_ret" for e in evs) and any(e["ev"] == "hend" for e in evs) and any(e["ev"] == "onclose_in" for e in evs) and len(evs) < 80:
            pick = t
            break
    if pick is None:
        return 0, []
    vs = [("untouched", pick)] + tamper_variants(pick)
    f = run.path("refine_selftest.ndjson")
    vlib.write_ndjson(f, [dict(t, id=900000 + i) for i, (_, t) in enumerate(vs)])
    consts = dict(SMALL, TLSMode='"none"', ListenFails="FALSE", ReadTimeout="FALSE", MaxDev="1000000", TrackFrontier="FALSE")
    body = "INIT RInit\nNEXT RNext\nCONSTRAINT NotYetAccepted\nPOSTCONDITION Report\nCHECK_DEADLOCK FALSE\n"
    res = run.tlc("GldapRefine", scen.cfg(consts, body), env={"OBS": f}, workers=1, timeout=600, dfs=True, heap="8g", cdot=True)
    acc = set(parse_line(res.out, "ACCEPTED") or [])
    if 900000 not in acc:
        raise vlib.Infra("refinement self-test: the untouched trace was not accepted")
    return len(vs) - 1, [d for i, (d, _) in enumerate(vs) if i > 0 and 900000 + i in acc]
