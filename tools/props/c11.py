"""C11: see props/lifecycle.py (Gldap.tla, Scen.tla, GldapTrace.tla)."""
from props import lifecycle


def check(run):
    return lifecycle.check(run, "C11", ["stopstates", "stop-storm", "stop", "stop2", "general", "long"])


def replay(run, path):
    return lifecycle.replay(run, "C11", path)
