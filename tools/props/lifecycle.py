"""Life-cycle properties C06 C07 C08 C09 C10 C11 C12 (C17): families of behaviours of Scen.tla replayed on the real server."""
import json, re
import vlib
from props import scen, refine

# which monitors / projection checks speak for which property
ATTR = {
    "C06": {"mon": ("C06_",), "inv": ("Missing_hstart", "Missing_hend", "Late_hstart", "Late_hend")},
    "C07": {"mon": ("C07_",), "inv": ("Missing_hstart", "Missing_hend", "Missing_eof", "Missing_onclose", "Missing_stopret", "Missing_runret", "Extra_runret", "Late_hstart", "Late_hend")},
    "C08": {"mon": ("C08_",), "inv": ("Missing_eof", "Missing_onclose", "Extra_onclose", "Extra_eof", "Late_eof", "Late_onclose")},
    "C09": {"mon": ("C09_", "C08_OnCloseOncePerConnection"), "inv": ("Missing_onclose", "Extra_onclose")},
    "C10": {"mon": ("C10_", "C08_SocketClosedOnlyAfterHandlersReturned"), "inv": ("Extra_hstart", "Extra_hend", "Missing_hunbind", "Extra_hunbind", "Missing_eof")},
    "C11": {"mon": ("C11_",), "inv": ("Missing_stopret", "Missing_runret", "Extra_runret", "Late_stopret", "Late_runret")},
    "C12": {"mon": ("C12_", "C08_NothingLeaks"), "inv": ("Missing_stopret",)},
    "C13": {"mon": ("C13_", "C08_SocketClosedOnlyAfterHandlersReturned"), "inv": ("EveryWriteArrives", "Missing_hstart", "Missing_hend", "Late_hstart", "Late_hend", "Extra_hstart")},
    "C18": {"mon": ("C18_", "C07_"), "inv": ("Extra_hstart", "Extra_hend", "Extra_hunbind", "Missing_hstart", "Missing_hend", "Missing_eof", "Late_eof", "Late_hstart")},
    "C17": {"mon": ("C17_",), "inv": ("Missing_ready", "Extra_ready", "Extra_runret")},
}

FAMILIES = {
    # two connections, requests / unbind / malformed frames, holds, closes, Stop
    "general": dict(consts={"Conns": '{"c1", "c2"}', "MaxReq": "2", "FrameKinds": '{"op", "unbind", "bad"}'}, depth=6, cfgs=[{"unbind_route": "0"}, {"unbind_route": "1"}]),
    # one connection, pipelines of up to 4 frames, sent frame by frame and in one segment
    "pipeline": dict(consts={"Conns": '{"c1"}', "MaxReq": "4", "FrameKinds": '{"op", "unbind"}'}, depth=7,
                     cfgs=[{"unbind_route": "1", "coalesce": "1"}, {"unbind_route": "0", "coalesce": "1"}, {"unbind_route": "1"},
                           {"unbind_route": "0", "coalesce": "1", "procs": "1"}, {"unbind_route": "1", "coalesce": "1", "procs": "1"},
                           {"unbind_route": "1", "coalesce": "1", "unbind_same_id": "1"}, {"unbind_route": "0", "unbind_same_id": "1"}],
                     must=lambda b: sum(1 for e in b if e["a"] == "send") >= 2),
    # Stop against idle / half-a-frame / not-reading / busy connections
    "stop": dict(consts={"Conns": '{"c1", "c2"}', "MaxReq": "2", "FrameKinds": '{"op", "partial", "unbind"}', "AllowStopReading": "TRUE"}, depth=6,
                 cfgs=[{"unbind_route": "0"}], must=lambda b: any(e["a"] == "stop" for e in b)),
    # two overlapping Stop calls against a connection whose handler is held
    "stop2": dict(consts={"Conns": '{"c1"}', "MaxReq": "2", "Stoppers": '{"s1", "s2"}', "FrameKinds": '{"op"}'}, depth=7,
                  cfgs=[{"unbind_route": "0"}], must=lambda b: sum(1 for e in b if e["a"] == "stop") == 2),
    # StartTLS: one connection, upgrade with the handler delayed before / after its reply, requests (held and not) after it
    "starttls": dict(consts={"Conns": '{"c1"}', "MaxReq": "3", "FrameKinds": '{"starttls", "op"}'}, depth=6,
                     cfgs=[{"unbind_route": "0", "tls": "starttls"}, {"unbind_route": "0", "tls": "starttls", "tls_delay_after": "1"}],
                     must=lambda b: starttls_ok(b)),
    # TLS listener (server authentication / client certificate required): every client kind, with a bystander
    "tls-server": dict(consts={"Conns": '{"c1", "c2"}', "MaxReq": "1", "FrameKinds": '{"op", "unbind"}', "TLSMode": '"server"'}, depth=5,
                       cfgs=[{"unbind_route": "0", "tls": "tls"}, {"unbind_route": "1", "tls": "tls"}], must=lambda b: any(e["a"] == "send" for e in b)),
    "tls-mtls": dict(consts={"Conns": '{"c1", "c2"}', "MaxReq": "1", "FrameKinds": '{"op", "unbind"}', "TLSMode": '"mtls"'}, depth=5,
                     cfgs=[{"unbind_route": "0", "tls": "mtls"}, {"unbind_route": "1", "tls": "mtls"}, {"unbind_route": "0", "tls": "mtls-vc"}], must=lambda b: any(e["a"] == "send" for e in b)),
    # TLS sessions that end with an orderly close / a TCP reset (the close_notify cannot be written), with a bystander
    "tls-close": dict(consts={"Conns": '{"c1", "c2"}', "MaxReq": "1", "FrameKinds": '{"op"}', "TLSMode": '"server"'}, depth=5,
                      cfgs=[{"unbind_route": "0", "tls": "tls", "reset": "1"}, {"unbind_route": "0", "tls": "tls"}],
                      must=lambda b: any(e["a"] == "close" for e in b) and all(e["k"] in ("valid", "nocert") for e in b if e["a"] == "dial")),
    "tls-anycert": dict(consts={"Conns": '{"c1", "c2"}', "MaxReq": "1", "FrameKinds": '{"op"}', "TLSMode": '"anycert"'}, depth=4,
                        cfgs=[{"unbind_route": "0", "tls": "anycert"}], must=lambda b: any(e["a"] == "send" for e in b)),
    # handler panics (recovered) on per-request goroutines and inline (StartTLS, unbind route), with a bystander connection
    "panic": dict(consts={"Conns": '{"c1", "c2"}', "MaxReq": "2", "FrameKinds": '{"op", "unbind", "starttls"}'}, depth=6, panic=True,
                  cfgs=[{"unbind_route": "1"}], must=lambda b: any(e["a"] == "panic" or e["s"] == "panic" for e in b)),
    # other faults: resets, half frames, clients that stop reading, descriptor exhaustion at accept time; bystander connection
    "fault": dict(consts={"Conns": '{"c1", "c2"}', "MaxReq": "2", "FrameKinds": '{"op", "partial", "bad"}', "AllowStopReading": "TRUE",
                          "AllowAcceptFault": "TRUE"}, depth=6, cfgs=[{"unbind_route": "0", "reset": "1"}, {"unbind_route": "0"}],
                  must=lambda b: any(e["a"] in ("emfile", "stopreading", "close") or e["k"] in ("partial", "bad") for e in b)),
}

# long random histories (TLC -simulate over Scen.tla): 14 environment actions, three connections
FAMILIES["long"] = dict(consts={"Conns": '{"c1", "c2", "c3"}', "MaxReq": "4", "FrameKinds": '{"op", "unbind", "bad", "partial"}', "AllowStopReading": "TRUE"},
                        depth=14, simulate=(250, 3000), cfgs=[{"unbind_route": "0"}, {"unbind_route": "1"}, {"unbind_route": "1", "reset": "1"}])
FAMILIES["long-starttls"] = dict(consts={"Conns": '{"c1", "c2"}', "MaxReq": "5", "FrameKinds": '{"op", "starttls", "unbind"}'}, depth=12, simulate=(3000, 20000),
                                 cfgs=[{"unbind_route": "0", "tls": "starttls"}], must=lambda b: starttls_ok(b))

DESIGN = {
    "quick": {"Conns": '{"c1"}', "MaxReq": "2", "FrameKinds": '{"op", "unbind", "partial", "bad"}'},
    # two connections: 25.8 M distinct states (134 M generated), about 5 minutes with 12 workers; MaxReq 2 with four frame kinds did not finish in 50 minutes
    "thorough": {"Conns": '{"c1", "c2"}', "MaxReq": "1", "FrameKinds": '{"op", "unbind", "bad"}'},
}
DESIGN_INV = ["ReqIDsInOrder", "NothingAfterUnbind", "Alive", "OnCloseAtMostOnce", "OnCloseAfterHandlers", "SocketClosedAfterHandlers",
              "ConnIDsUnique", "QuiescentAfterStop", "ReadyImpliesListening", "NoReadyOnListenFailure"]
LIVE = {"Conns": '{"c1"}', "MaxReq": "2", "FrameKinds": '{"op", "unbind", "partial", "bad"}'}
LIVE_PROPS = ["StopTerminates", "RunReturnsNil", "EventuallyTornDown"]


def attribute(pid, res, rows, scenarios):
    """violations of the trace validation that speak for property pid"""
    a = ATTR[pid]
    by_id = {s["id"]: s for s in scenarios}
    out, seen = [], set()
    for v in res.violations:
        if not v["states"]:
            continue
        st = v["states"][-1]["vars"]
        l = int(st.get("l", "0"))
        if l < 1 or l > len(rows):
            continue
        name = v["name"]
        if name == "OrderMonitors":
            name = st.get("bad", '""').strip('"')
            if not name.startswith(a["mon"]):
                continue
        elif name == "NotStuck":
            continue
        elif name not in a["inv"] and not (pid == "C17" and name == "Missing_runret"):
            continue
        ev = rows[l - 1]
        sid = ev.get("scen")
        if pid == "C17" and name == "Missing_runret" and not by_id.get(sid, {}).get("cfg", {}).get("expect_run_error"):
            continue      # C17 speaks about Run's return only where Run cannot listen
        if (name, sid) in seen:
            continue
        sc = by_id.get(sid, {})
        if sc.get("cfg", {}).get("stop_storm") == "1" and (name.startswith("Late_") or name.startswith("Extra_")):
            continue      # connections of the harness itself race Stop there: only what is missing at the end is judged
        seen.add((name, sid))
        envs = [[e["a"], e["c"], e["i"], e["k"], e["hold"]] for e in sc.get("behaviour", []) if e["a"] in scen.ENV]
        out.append({"signature": {"monitor": name, "cfg": sc.get("cfg"), "env": envs},
                    "what": "%s false in scenario %s %s (event %s)" % (name, json.dumps(sc.get("cfg")), json.dumps(envs),
                                                                      json.dumps({k: ev.get(k) for k in ("ev", "c", "i", "val", "n", "m", "held")})),
                    "replay": {"scenario": sc, "monitor": name, "trace": [r for r in rows if r.get("scen") == sid][:300]}})
    return out


def starttls_ok(b):
    """exactly one StartTLS, sent on an otherwise idle connection (no request in flight - RFC 4511 4.14.1 - and nothing sent
    until its handler has returned: a conforming client waits for the response before it starts the handshake)"""
    env = [e for e in b if e["a"] in scen.ENV]
    idx = [k for k, e in enumerate(env) if e["a"] == "send" and e["k"] == "starttls"]
    if len(idx) != 1:
        return False
    k = idx[0]
    if any(e["a"] == "send" and e["c"] == env[k]["c"] for e in env[:k]):
        return False
    if env[k]["hold"]:
        return k + 1 < len(env) and env[k + 1]["a"] == "release" and env[k + 1]["c"] == env[k]["c"] and env[k + 1]["i"] == env[k]["i"]
    return True


def deep_script(n, tail=True, release=True):
    """n pipelined requests whose handlers all block, then an Unbind and one more request; then the handlers are released"""
    sc = [{"a": "run"}, {"a": "dial", "c": "c1"}]
    sc += [{"a": "send", "c": "c1", "k": "op", "hold": True} for _ in range(n)]
    if tail:
        sc += [{"a": "send", "c": "c1", "k": "unbind"}, {"a": "send", "c": "c1", "k": "op"}]
    if release:
        sc += [{"a": "release", "c": "c1", "i": i} for i in range(1, n + 1)]
    return sc


def conns_script(m, rnd):
    """m connections opened in waves, a request on each, some closed / unbound before the next wave; Stop at the end"""
    names = ["c%d" % i for i in range(1, m + 1)]
    sc = [{"a": "run"}]
    opened = []
    for w in range(0, m, 3):
        wave = names[w:w + 3]
        for c in wave:
            sc.append({"a": "dial", "c": c})
        for c in wave:
            sc.append({"a": "send", "c": c, "k": "op", "hold": rnd.random() < 0.3})
        opened += wave
        victim = rnd.choice(opened)
        opened.remove(victim)
        sc.append({"a": "send", "c": victim, "k": "unbind"} if rnd.random() < 0.5 else {"a": "close", "c": victim})
    return sc


def scripted_family(run, fam, quick):
    import random
    rnd = random.Random(run.seed)
    if fam == "deep":
        ns = [33 + rnd.randrange(8), 130 + rnd.randrange(20)] if quick else [33, 64, 129, 200, 256]
        scripts = [deep_script(n) for n in ns] + [deep_script(ns[0], tail=False)]
        consts = {"Conns": '{"c1"}', "MaxReq": str(max(ns) + 2), "FrameKinds": '{"op", "unbind"}'}
        cfgs = [{"unbind_route": "1", "coalesce": "1"}, {"unbind_route": "0", "coalesce": "1"}, {"unbind_route": "1"}]
    elif fam == "stopstates":
        # the connection states C11 names, each followed by Stop (and a second, overlapping Stop)
        R, D = {"a": "run"}, lambda c, k="": {"a": "dial", "c": c, "k": k}
        S = lambda c, k, hold=False: {"a": "send", "c": c, "k": k, "hold": hold}
        stop1, stop2 = {"a": "stop", "s": "s1"}, {"a": "stop", "s": "s2"}
        plain = [
            [R, D("c1"), stop1],
            [R, D("c1"), S("c1", "partial"), stop1, stop2],
            [R, D("c1"), {"a": "stopreading", "c": "c1"}, S("c1", "op"), S("c1", "op"), stop1],
            [R, D("c1"), {"a": "stopreading", "c": "c1"}, S("c1", "op"), S("c1", "unbind"), stop1],
            [R, D("c1"), D("c2"), {"a": "stopreading", "c": "c2"}, S("c2", "op"), S("c1", "partial"), stop1, stop2],
            [R, D("c1")] + [S("c1", "op") for _ in range(40)] + [stop1],
            [R, D("c1"), S("c1", "op", True), stop1, stop2, {"a": "release", "c": "c1", "i": 1}],
            # a handler that only starts writing (16 MB to a client that does not read) after Stop was called
            [R, D("c1"), {"a": "stopreading", "c": "c1"}, S("c1", "op", True), stop1, {"a": "release", "c": "c1", "i": 1}],
            [R, D("c1"), D("c2"), {"a": "stopreading", "c": "c2"}, S("c2", "op", True), S("c2", "op", True), S("c1", "op", True), stop1,
             {"a": "release", "c": "c2", "i": 2}, {"a": "release", "c": "c1", "i": 1}, {"a": "release", "c": "c2", "i": 1}],
        ]
        consts = {"Conns": '{"c1", "c2"}', "MaxReq": "41", "Stoppers": '{"s1", "s2"}', "FrameKinds": '{"op", "partial", "unbind", "starttls"}'}
        out = [(b, {"unbind_route": "0"}) for b in scen.scripted(run, plain, consts)]
        out += [(out[5][0], {"unbind_route": "0", "coalesce": "1"})]
        # a burst of pipelined requests, all in flight at once, then Stop
        nb = 140 if quick else 300
        burst = [[R, D("c1")] + [S("c1", "op", True) for _ in range(nb)] + [stop1] + [{"a": "release", "c": "c1", "i": i} for i in range(nb, 0, -1)]]
        out += [(b, {"unbind_route": "0", "coalesce": "1"}) for b in scen.scripted(run, burst, dict(consts, MaxReq=str(nb + 1), Conns='{"c1"}'))]
        # StartTLS upgrades interrupted by Stop: handler delayed before its reply; client that never starts the handshake
        stls = [
            [R, D("c1"), S("c1", "starttls", True), stop1, {"a": "release", "c": "c1", "i": 1}],
            [R, D("c1", "silent"), S("c1", "starttls"), stop1],
            [R, D("c1", "silent"), S("c1", "starttls", True), stop1, {"a": "release", "c": "c1", "i": 1}],   # Stop lands before the handler starts the handshake
            [R, D("c1", "silent"), S("c1", "starttls", True), stop1, stop2, {"a": "release", "c": "c1", "i": 1}],
            [R, D("c1"), S("c1", "starttls"), S("c1", "op", True), stop1, {"a": "release", "c": "c1", "i": 2}],
        ]
        out += [(b, {"unbind_route": "0", "tls": "starttls"}) for b in scen.scripted(run, stls, dict(consts, AllowSilent="TRUE"))]
        # TLS listener: handshake pending / failed, then Stop
        for mode, tm in (("tls", '"server"'), ("mtls", '"mtls"')):
            scripts = [[R, D("c1", k), stop1] for k in ("silent", "valid", "plaintext", "garbage", "nocert", "wrongca")]
            scripts += [[R, D("c1", "silent"), D("c2", "valid"), S("c2", "op", True), stop1, {"a": "release", "c": "c2", "i": 1}]]
            out += [(b, {"unbind_route": "0", "tls": mode}) for b in scen.scripted(run, scripts, dict(consts, TLSMode=tm))]
        return out
    elif fam == "starttls2":
        R, D = {"a": "run"}, lambda c: {"a": "dial", "c": c}
        S = lambda c, k, hold=False: {"a": "send", "c": c, "k": k, "hold": hold}
        rel = lambda c, i: {"a": "release", "c": c, "i": i}
        scripts = [
            # two sessions upgrading in parallel (handlers delayed, released in the opposite order), then traffic inside both tunnels
            [R, D("c1"), D("c2"), S("c1", "starttls", True), S("c2", "starttls", True), rel("c2", 1), rel("c1", 1),
             S("c1", "op", True), S("c1", "op"), S("c2", "op"), S("c1", "op", True), rel("c1", 4), rel("c1", 2), S("c1", "unbind"), S("c2", "op"), {"a": "close", "c": "c2"}],
            # upgrade, a pipeline of held requests inside the tunnel, Stop
            [R, D("c1"), S("c1", "starttls")] + [S("c1", "op", True) for _ in range(12)] + [rel("c1", i) for i in range(13, 1, -1)] + [{"a": "stop", "s": "s1"}],
            [R, D("c1"), D("c2"), S("c2", "op", True), S("c1", "starttls"), S("c1", "op"), rel("c2", 1), S("c2", "starttls"), S("c2", "op"), S("c1", "op")],
        ]
        consts = {"Conns": '{"c1", "c2"}', "MaxReq": "14", "FrameKinds": '{"starttls", "op", "unbind"}'}
        behs = scen.scripted(run, scripts, consts)
        out = []
        for b in behs:
            out.append((b, {"unbind_route": "1", "tls": "starttls"}))
            out.append((b, {"unbind_route": "0", "tls": "starttls", "tls_delay_after": "1"}))
        # a long-lived session: the tunnel still answers after an idle period (11 s quick, 31 s thorough: deadlines armed by a handshake or an upgrade must not outlive it)
        idle = scen.scripted(run, [[R, D("c1"), S("c1", "starttls"), S("c1", "op"), S("c1", "op"), S("c1", "op", True), rel("c1", 4)]], consts)[0]
        k = max(i for i, e in enumerate(idle) if e["a"] == "hend" and e["i"] == 2) + 1
        idle = idle[:k] + [{"a": "sleep", "c": "", "i": 11000 if quick else 31000, "k": "", "s": "", "hold": False}] + idle[k:]
        out.append((idle, {"unbind_route": "0", "tls": "starttls"}))
        return out
    elif fam == "timeout":
        # servers created WithReadTimeout: the connection's one read deadline expires while it is idle / in the middle of a
        # frame / has a handler running / is upgraded / is still waiting for a TLS handshake; then traffic of a bystander, Stop
        R, D = {"a": "run"}, lambda c, k="": {"a": "dial", "c": c, "k": k}
        S = lambda c, k, hold=False: {"a": "send", "c": c, "k": k, "hold": hold}
        rel = lambda c, i: {"a": "release", "c": c, "i": i}
        T = lambda c: {"a": "timeout", "c": c}
        stop1 = {"a": "stop", "s": "s1"}
        ms = "900" if quick else "2500"
        base = {"Conns": '{"c1", "c2"}', "MaxReq": "3", "FrameKinds": '{"op", "partial", "unbind", "starttls"}', "ReadTimeout": "TRUE", "AllowTimeout": "TRUE"}
        plain = [[R, D("c1"), T("c1")],
                 [R, D("c1"), S("c1", "op"), T("c1"), stop1],
                 [R, D("c1"), S("c1", "op", True), T("c1"), rel("c1", 1)],
                 [R, D("c1"), S("c1", "partial"), T("c1")],
                 [R, D("c1"), S("c1", "op", True), S("c1", "op"), T("c1"), stop1, rel("c1", 1)],
                 [R, D("c1"), D("c2"), S("c2", "op"), T("c1"), S("c2", "op"), T("c2")]]
        out = [(b, {"unbind_route": "0", "read_timeout_ms": ms}) for b in scen.scripted(run, plain, base)]
        # the second connection is dialled well after the first one, so that its deadline is well after the first one's
        # (a pause is a harness step: the model has no notion of time)
        b6 = out[5][0]
        k = next(i for i, e in enumerate(b6) if e["a"] == "dial" and e["c"] == "c2")
        out[5] = (b6[:k] + [{"a": "sleep", "c": "", "i": int(ms) // 2, "k": "", "s": "", "hold": False}] + b6[k:], out[5][1])
        stls = [[R, D("c1"), S("c1", "starttls"), S("c1", "op"), T("c1")],
                [R, D("c1", "silent"), S("c1", "starttls"), T("c1")]]
        out += [(b, {"unbind_route": "0", "read_timeout_ms": ms, "tls": "starttls"}) for b in scen.scripted(run, stls, dict(base, AllowSilent="TRUE"))]
        tl = [[R, D("c1", "silent"), T("c1")], [R, D("c1", "valid"), S("c1", "op"), T("c1")], [R, D("c1", "valid"), T("c1"), stop1]]
        out += [(b, {"unbind_route": "0", "read_timeout_ms": ms, "tls": "tls"}) for b in scen.scripted(run, tl, dict(base, TLSMode='"server"'))]
        return out
    elif fam == "blocked-writer":
        # handlers blocked inside Write (16 MB to a client that does not read) delay neither later requests of that
        # connection nor other connections
        R, D = {"a": "run"}, lambda c: {"a": "dial", "c": c}
        S = lambda c, k, hold=False: {"a": "send", "c": c, "k": k, "hold": hold}
        nr = lambda c: {"a": "stopreading", "c": c}
        consts = {"Conns": '{"c1", "c2"}', "MaxReq": "6", "FrameKinds": '{"op"}', "AllowStopReading": "TRUE"}
        scripts = [[R, D("c1"), nr("c1"), S("c1", "op"), S("c1", "op"), S("c1", "op"), S("c1", "op"), S("c1", "op")],
                   [R, D("c1"), D("c2"), nr("c1"), S("c1", "op"), S("c1", "op"), S("c2", "op"), S("c1", "op"), S("c2", "op"), S("c1", "op")]]
        return [(b, {"unbind_route": "0", "wait_write_blocked": "1"}) for b in scen.scripted(run, scripts, consts)] * 2
    elif fam == "stop-storm":
        # clients connecting at the very moment Stop is called: Stop and Run return all the same
        R, D = {"a": "run"}, lambda c: {"a": "dial", "c": c}
        S = lambda c, k, hold=False: {"a": "send", "c": c, "k": k, "hold": hold}
        stop1 = {"a": "stop", "s": "s1"}
        consts = {"Conns": '{"c1"}', "MaxReq": "2", "FrameKinds": '{"op"}'}
        scripts = [[R, stop1], [R, D("c1"), S("c1", "op"), stop1], [R, D("c1"), S("c1", "op", True), stop1, {"a": "release", "c": "c1", "i": 1}]]
        return [(b, {"unbind_route": "0", "stop_storm": "1"}) for b in scen.scripted(run, scripts, consts)] * (8 if quick else 40)
    elif fam == "tls-stall":
        # peers that connect to a TLS listener and then stall (never start the handshake / send half a record / plaintext):
        # later connections are accepted and served all the same
        R, D = {"a": "run"}, lambda c, k="valid": {"a": "dial", "c": c, "k": k}
        S = lambda c, k, hold=False: {"a": "send", "c": c, "k": k, "hold": hold}
        consts = {"Conns": '{"c1", "c2", "c3"}', "MaxReq": "2", "FrameKinds": '{"op"}'}
        scripts = [[R, D("c1", "silent"), D("c2"), S("c2", "op"), D("c3"), S("c3", "op"), S("c2", "op")],
                   [R, D("c1", "silent"), D("c2", "silent"), D("c3"), S("c3", "op"), {"a": "stop", "s": "s1"}],
                   [R, D("c1"), S("c1", "op", True), D("c2", "garbage"), D("c3"), S("c3", "op"), {"a": "release", "c": "c1", "i": 1}]]
        out = []
        for mode, tm in (("tls", '"server"'), ("mtls", '"mtls"')):
            out += [(b, {"unbind_route": "0", "tls": mode}) for b in scen.scripted(run, scripts, dict(consts, TLSMode=tm))]
        return out
    elif fam == "idle":
        # long-lived sessions: a connection that has been idle for a while (11 s; thorough 31 s) is served like a fresh one
        # (nothing armed at accept / handshake time may cut it off later), plain and on a TLS listener, with a handler
        # that has been running all the while
        R, D = {"a": "run"}, lambda c: {"a": "dial", "c": c}
        S = lambda c, k, hold=False: {"a": "send", "c": c, "k": k, "hold": hold}
        rel = lambda c, i: {"a": "release", "c": c, "i": i}
        ms = 11000 if quick else 31000
        consts = {"Conns": '{"c1", "c2"}', "MaxReq": "4", "FrameKinds": '{"op", "unbind"}'}
        scripts = [[R, D("c1"), S("c1", "op"), S("c1", "op")],
                   [R, D("c1"), D("c2"), S("c2", "op", True), S("c1", "op"), rel("c2", 1), S("c2", "op"), S("c1", "unbind")]]
        out = []
        for tls, extra in (("", {}), ("tls", {"TLSMode": '"server"'})):
            for n, b in enumerate(scen.scripted(run, scripts, dict(consts, **extra))):
                # the pause comes before the last send to c1
                k = max(i for i, e in enumerate(b) if e["a"] == "send" and e["c"] == "c1")
                if n == 1:
                    k = next(i for i, e in enumerate(b) if e["a"] == "release")
                cfgv = {"unbind_route": "0"}
                if tls:
                    cfgv["tls"] = tls
                out.append((b[:k] + [{"a": "sleep", "c": "", "i": ms, "k": "", "s": "", "hold": False}] + b[k:], cfgv))
        return out
    elif fam == "outliving":
        # a handler that outlives its client by several seconds while other connections come and go: the connection (and
        # its ID, asked again when the handler finally returns) stays its own
        R, D = {"a": "run"}, lambda c: {"a": "dial", "c": c}
        S = lambda c, k, hold=False: {"a": "send", "c": c, "k": k, "hold": hold}
        rel = lambda c, i: {"a": "release", "c": c, "i": i}
        cl = lambda c: {"a": "close", "c": c}
        consts = {"Conns": '{"c1", "c2", "c3"}', "MaxReq": "2", "FrameKinds": '{"op", "unbind"}'}
        scripts = [[R, D("c1"), S("c1", "op", True), cl("c1"), D("c2"), S("c2", "op"), cl("c2"), D("c3"), S("c3", "op", True), S("c3", "op"), rel("c1", 1), rel("c3", 1)],
                   [R, D("c1"), D("c2"), S("c1", "op", True), S("c2", "op", True), cl("c1"), cl("c2"), D("c3"), S("c3", "op"), rel("c2", 1), rel("c1", 1), S("c3", "op")]]
        out = []
        for b in scen.scripted(run, scripts, consts):
            k = next(i for i, e in enumerate(b) if e["a"] == "dial" and e["c"] == "c3")
            out.append((b[:k] + [{"a": "sleep", "c": "", "i": 6500 if quick else 16000, "k": "", "s": "", "hold": False}] + b[k:], {"unbind_route": "0"}))
        return out
    elif fam == "starttls-adversarial":
        # (a) a complete plaintext request glued behind the StartTLS request in the same segment: never served, the tunnel works;
        # (b) the StartTLS handler keeps working after the upgrade while the client already sends inside the tunnel:
        #     nothing is dispatched until the handler has returned
        R, D = {"a": "run"}, lambda c: {"a": "dial", "c": c}
        S = lambda c, k, hold=False: {"a": "send", "c": c, "k": k, "hold": hold}
        rel = lambda c, i: {"a": "release", "c": c, "i": i}
        consts = {"Conns": '{"c1", "c2"}', "MaxReq": "4", "FrameKinds": '{"starttls", "op", "unbind"}'}
        inj = [[R, D("c1"), S("c1", "starttls"), S("c1", "op"), S("c1", "op", True), S("c1", "op"), rel("c1", 3)],
               [R, D("c1"), D("c2"), S("c1", "starttls"), S("c2", "starttls"), S("c2", "op"), S("c1", "op"), S("c1", "unbind")]]
        out = [(b, {"unbind_route": "0", "tls": "starttls", "inject_plain": "1"}) for b in scen.scripted(run, inj, consts)]
        after = [[R, D("c1"), S("c1", "starttls", True), S("c1", "op"), rel("c1", 1), S("c1", "op")],
                 [R, D("c1"), S("c1", "starttls", True), S("c1", "op"), S("c1", "op"), rel("c1", 1)],
                 [R, D("c1"), D("c2"), S("c1", "starttls", True), S("c2", "starttls", True), S("c1", "op"), S("c2", "op"), rel("c2", 1), rel("c1", 1)]]
        out += [(b, {"unbind_route": "0", "tls": "starttls", "tls_hold_after": "1"}) for b in scen.scripted(run, after, consts)]
        return out * (2 if quick else 6)
    elif fam == "starttls-close":
        # upgraded sessions that end with an orderly close / a TCP reset / Unbind, idle or with a handler running
        R, D = {"a": "run"}, lambda c: {"a": "dial", "c": c}
        S = lambda c, k, hold=False: {"a": "send", "c": c, "k": k, "hold": hold}
        rel = lambda c, i: {"a": "release", "c": c, "i": i}
        cl = lambda c: {"a": "close", "c": c}
        scripts = [[R, D("c1"), S("c1", "starttls"), cl("c1")],
                   [R, D("c1"), S("c1", "starttls"), S("c1", "op"), cl("c1")],
                   [R, D("c1"), D("c2"), S("c1", "starttls"), S("c2", "starttls"), S("c1", "op", True), cl("c1"), rel("c1", 2), S("c2", "op"), cl("c2")],
                   [R, D("c1"), S("c1", "starttls"), S("c1", "op"), S("c1", "unbind")]]
        consts = {"Conns": '{"c1", "c2"}', "MaxReq": "3", "FrameKinds": '{"starttls", "op", "unbind"}'}
        behs = scen.scripted(run, scripts, consts)
        return [(b, dict(cfgv)) for b in behs for cfgv in ({"unbind_route": "0", "tls": "starttls", "reset": "1"}, {"unbind_route": "0", "tls": "starttls"},
                                                           {"unbind_route": "1", "tls": "starttls", "reset": "1"})]
    elif fam == "starttls-inflight":
        # a request still in flight while the connection is upgraded (not something a conforming client does; exercised for C15 only)
        R, D = {"a": "run"}, lambda c: {"a": "dial", "c": c}
        S = lambda c, k, hold=False: {"a": "send", "c": c, "k": k, "hold": hold}
        rel = lambda c, i: {"a": "release", "c": c, "i": i}
        scripts = [[R, D("c1"), S("c1", "op", True), S("c1", "starttls"), rel("c1", 1), S("c1", "op")],
                   [R, D("c1"), S("c1", "op", True), S("c1", "op", True), S("c1", "starttls"), rel("c1", 2), rel("c1", 1), {"a": "stop", "s": "s1"}]]
        consts = {"Conns": '{"c1"}', "MaxReq": "4", "FrameKinds": '{"starttls", "op"}'}
        out = [(b, {"unbind_route": "0", "tls": "starttls"}) for b in scen.scripted(run, scripts, consts)] * 3
        # ... and released just before the StartTLS request is sent, finishing by itself while the connection is upgraded
        # (no harness synchronisation between its Write and the upgrade)
        late = [[R, D("c1"), S("c1", "op", True), rel("c1", 1), S("c1", "starttls")],
                [R, D("c1"), S("c1", "op", True), S("c1", "op", True), rel("c1", 2), rel("c1", 1), S("c1", "starttls")]]
        pause = {"a": "sleep", "c": "", "i": 150, "k": "", "s": "", "hold": False}     # let the released handlers finish
        # (the handler goes on 40 / 120 / 300 ms after its release: before, while and after the upgrade is made)
        for b in scen.scripted(run, late, consts):
            for ms in ("40", "40", "120", "300"):
                out.append((b + [dict(pause, i=110 + int(ms))], {"unbind_route": "0", "tls": "starttls", "async_release": "1", "async_ms": ms}))
        return out
    elif fam == "ready":
        ok_addrs = ["", "ipv6", "ipv6-bare", "host", "port-only"]
        bad_addrs = ["in-use", "in-use-gldap", "bad-noport", "bad-ipv4", "bad-ipv6", "bad-bracket", "bad-emptyport", "bad-brackets-empty", "bad-brackets-host",
                     "bad-2brackets", "bad-bracket-close2", "bad-bracket-open2", "bad-brackets-ipv4", "bad-brackets-front"]
        consts = {"Conns": '{"c1"}', "MaxReq": "1", "FrameKinds": '{"op"}'}
        good = scen.scripted(run, [[{"a": "run"}, {"a": "dial", "c": "c1"}, {"a": "send", "c": "c1", "k": "op"}, {"a": "stop", "s": "s1"}]], consts)
        failing = scen.scripted(run, [[{"a": "run"}]], dict(consts, ListenFails="TRUE"))
        out = []
        for a in ok_addrs:
            for tls in ("", "tls"):
                out.append((good[0], {"addr": a, "ready_dial": "1", "tls": tls, "unbind_route": "0"}))
        # a TLS configuration without any certificate: the listener exists (every handshake fails): Ready, and it stays that way
        only_run = scen.scripted(run, [[{"a": "run"}]], consts)
        out.append((only_run[0], {"addr": "", "ready_dial": "1", "tls": "emptycfg", "unbind_route": "0", "settle_ms": "300"}))
        for a in bad_addrs:
            for tls in ("", "tls"):
                out.append((failing[0], {"addr": a, "ready_dial": "1", "tls": tls, "unbind_route": "0", "expect_run_error": "1"}))
        return out
    elif fam == "manyconns":
        ms = [6, 9] if quick else [6, 9, 12, 12]
        scripts = [conns_script(m, rnd) for m in ms]
        consts = {"Conns": "{" + ", ".join('"c%d"' % i for i in range(1, max(ms) + 1)) + "}", "MaxReq": "2", "FrameKinds": '{"op", "unbind"}'}
        cfgs = [{"unbind_route": "1"}, {"unbind_route": "0"}]
    else:
        raise vlib.Infra("unknown scripted family " + fam)
    behs = scen.scripted(run, scripts, consts)
    return [(b, dict(cfgs[n % len(cfgs)])) for n, b in enumerate(behs)]


SCRIPTED = {"deep", "manyconns", "ready", "stopstates", "starttls2", "starttls-inflight", "starttls-close", "timeout", "starttls-adversarial", "outliving", "idle", "tls-stall", "stop-storm", "blocked-writer"}


def run_families(run, names, cap):
    scenarios, stats = [], {}
    for fam in names:
        if fam in SCRIPTED:
            pairs = scripted_family(run, fam, run.quick())
            stats[fam] = {"behaviours": len(pairs), "scripted": True}
            for b, cfgv in pairs:
                cfgv["family"] = fam
                scenarios.append({"id": len(scenarios) + 1, "cfg": cfgv, "behaviour": b})
            continue
        f = FAMILIES[fam]
        consts = dict(f["consts"])
        behs, res = scen.behaviours(run, consts, f["depth"], allow_panic=f.get("panic", False), cap=cap, must_contain=f.get("must"),
                                     simulate=(f["simulate"][0 if run.quick() else 1] if f.get("simulate") else None))
        stats[fam] = {"behaviours": len(behs), "scen_states": res.distinct}
        for n, b in enumerate(behs):
            cfgv = dict(f["cfgs"][n % len(f["cfgs"])])
            cfgv["family"] = fam
            scenarios.append({"id": len(scenarios) + 1, "cfg": cfgv, "behaviour": b})
    return scenarios, stats


def action_coverage(run, quick):
    """anti-vacuity: every action of Gldap.tla is taken in the bounded configurations (TLC -coverage on GldapCov.tla, which is
    Gldap's next-state relation written as one disjunct per line); returns {action: states generated}"""
    src = open(run.path("spec", "GldapCov.tla")).read().splitlines()
    names = {}
    for n, line in enumerate(src, 1):
        m = re.search(r"alive /\\ (\w+)", line)
        if m:
            names[n] = m.group(1)
    total = {a: 0 for a in names.values()}
    for mode in ('"none"', '"server"'):
        consts = {"Conns": '{"c1"}', "MaxReq": "1" if quick else "2", "FrameKinds": '{"op", "unbind", "starttls", "bad", "partial"}',
                  "TLSMode": mode, "ReadTimeout": "TRUE"}
        body = "SPECIFICATION CovSpec\nINVARIANTS TypeOK\n%sCHECK_DEADLOCK FALSE\n" % ("" if quick else "PROPERTIES SameRelation\n")
        res = run.tlc("GldapCov", scen.cfg(consts, body), workers=8, timeout=1800, coverage=True)
        if res.violations:
            raise vlib.Infra("GldapCov: %s" % res.violations[0]["name"])
        for m in re.finditer(r"<CovNext line \d+, col \d+ to line \d+, col \d+ of module GldapCov \((\d+) \d+ \d+ \d+\)>: (\d+):(\d+)", res.out):
            a = names.get(int(m.group(1)))
            if a:
                total[a] += int(m.group(3))
    never = sorted(a for a, n in total.items() if n == 0)
    if never:
        raise vlib.Infra("actions of Gldap.tla never taken in the bounded configurations (vacuous): %s" % never)
    return total


def check(run, pid, families, extra=None):
    q = run.quick()
    run.build()
    acov = action_coverage(run, q)
    live = scen.design_check(run, LIVE, DESIGN_INV, properties=LIVE_PROPS, workers=4)
    mc = live if q else scen.design_check(run, DESIGN["thorough"], DESIGN_INV, workers=12, timeout=5400)
    if not q:
        # beyond the exhaustive bounds: random walks of the design model with three connections, three requests each, every
        # frame kind, read deadlines and two concurrent Stop callers (TLC -simulate; invariants only)
        big = {"Conns": '{"c1", "c2", "c3"}', "MaxReq": "3", "Stoppers": '{"s1", "s2"}', "FrameKinds": '{"op", "unbind", "starttls", "partial", "bad"}', "ReadTimeout": "TRUE"}
        body = "SPECIFICATION Spec\nINVARIANTS TypeOK %s\nCHECK_DEADLOCK FALSE\n" % " ".join(DESIGN_INV)
        sim = run.tlc("Gldap", scen.cfg(big, body), workers=8, timeout=1800, simulate="num=40000", depth=150, extra=["-seed", str(run.seed)])
        if sim.violations:
            raise vlib.Infra("design model Gldap.tla violates %s in simulation (model-only: fix the spec)" % sim.violations[0]["name"])
    scenarios, stats = run_families(run, families, cap=1200 if q else None)
    if pid == "C06":
        # an application that registers a further route while a handler is blocked (say, a feature switched on at run time):
        # a third of the scenarios in which something is sent while a handler is held. Not part of C15's schedules
        # (C15 assumes routes registered before Run).
        n = 0
        for s in scenarios:
            if s["cfg"].get("family") not in ("general", "pipeline", "long") or s["cfg"].get("procs"):
                continue
            held, hit = set(), False
            for e in s["behaviour"]:
                if e["a"] == "send" and held:
                    hit = True
                if e["a"] == "send" and e["hold"]:
                    held.add((e["c"], e["i"]))
                if e["a"] in ("release", "panic"):
                    held.discard((e["c"], e["i"]))
            if hit:
                n += 1
                if n % 3 == 0:
                    s["cfg"]["late_route"] = "1"
        stats["late_route"] = {"behaviours": n // 3, "variant": True}
    rows, trace = scen.replay(run, scenarios, par=8)
    # scenarios whose timed steps ran late (a read deadline fired before the model's "timeout" step): not judged
    late = {r.get("scen") for r in rows if r["ev"] == "desync"}
    if late:
        rows = [r for r in rows if r.get("scen") not in late]
        scenarios = [s for s in scenarios if s["id"] not in late]
        vlib.write_ndjson(trace, rows)
    res = scen.validate(run, trace, first=ATTR[pid]["inv"])
    viols = attribute(pid, res, rows, scenarios)
    # refinement: every recorded execution (its per-goroutine event sequences) is a behaviour of Gldap.tla
    lim = 600 if q else 4000       # spread over all families
    step = max(1, (len(scenarios) + lim - 1) // lim)
    racc, rrej, rn, rskip = refine.check(run, rows, scenarios[::step])
    viols += refine.violations(pid, rrej, rows, scenarios)
    ntamper, slipped = refine.selftest(run, rows, scenarios, racc)
    if slipped:
        raise vlib.Infra("refinement check accepts corrupted traces: %s" % slipped)
    nextra = 0
    if extra:
        ev, nextra = extra(run)
        viols += ev
    nenv = sum(1 for s in scenarios for e in s["behaviour"] if e["a"] in scen.ENV)
    sample = scenarios[len(scenarios) // 2]
    cov = {"states": mc.distinct + (0 if q else live.distinct), "transitions": mc.generated + (0 if q else live.generated),
           "traces_validated_against_impl": len(scenarios) + nextra,
           "samples": [{"cfg": sample["cfg"], "behaviour": [[e["a"], e["c"], e["i"], e["k"], e["hold"]] for e in sample["behaviour"]],
                        "trace": [[r["ev"], r["c"], r["i"], r["val"]] for r in rows if r.get("scen") == sample["id"]][:40]}],
           "evaluations": nenv, "distinct_nontrivial": len({json.dumps([e for e in s["behaviour"] if e["a"] in scen.ENV]) for s in scenarios if any(e["hold"] or e["a"] in ("stop", "close", "panic") for e in s["behaviour"])}),
           "families": stats, "trace_events": len(rows), "design_action_coverage": acov, "scenarios_out_of_step_not_judged": len(late),
           "refinement": {"traces": rn, "accepted": len(racc), "rejected": len(rrej), "not_modelled": rskip, "search_unfinished_no_verdict": getattr(run, "refine_inconclusive", 0), "corrupted_traces_rejected": ntamper,
                          "rule": "GldapRefine.tla: per-goroutine event queues (gates of server.go/conn.go, handler entry/exit, OnClose, Stop/Run, client actions) "
                                  "interleaved by TLC under Gldap's actions; a trace is accepted when every event is consumed"},
           "rule": "TLC enumerates the behaviours of Scen.tla (Gldap.tla in quiescent normal form) up to the family's number of environment actions, "
                   "deduplicated by environment-action sequence; each is replayed on a real server (children processes, crash and hang detection); "
                   "non-trivial = contains a held handler, a close, a panic or a Stop"}
    return vlib.finish(run, "model_checking", cov, viols, ASSUME)


ASSUME = ["behaviours are in quiescent normal form: the harness takes the next environment action only after the observable events the model predicts "
          "have been seen (positive signals; bounded waits) - interleavings inside gldap's own code between those points are left to the Go scheduler",
          "a connection's tag is learned from message ids; the monitors of GldapTrace use the scheduling gates (build tag verif) for synchronisation only; their log lines are the linearization points of the refinement check (GldapRefine), which concludes order only from program order within a goroutine and from 'logged before the previous line of the acting goroutine'",
          "operation kinds rotate over bind/search/modify/add/delete per frame and seed"]


def replay(run, pid, path):
    rp = json.load(open(path))
    run.build()
    sc = rp["replay"]["scenario"]
    n = 0
    for k in range(5):
        rows, trace = scen.replay(run, [dict(sc, id=1)], par=1)
        res = scen.validate(run, trace, first=ATTR[pid]["inv"])
        viols = attribute(pid, res, rows, [dict(sc, id=1)])
        if str(rp["replay"].get("monitor", "")).startswith("Refinement"):
            racc, rrej, rn, rskip = refine.check(run, rows, [dict(sc, id=1)])
            viols += refine.violations(pid, rrej, rows, [dict(sc, id=1)])
        if viols:
            n += 1
            print("REPRODUCED property=%s %s" % (pid, viols[0]["what"]))
    print("replay: reproduced in %d of 5 runs" % n)
    return 1 if n else 0
