"""Life-cycle properties C06 C07 C08 C09 C10 C11 C12 (C17): families of behaviours of Scen.tla replayed on the real server."""
import json
import vlib
from props import scen

# which monitors / projection checks speak for which property
ATTR = {
    "C06": {"mon": ("C06_",), "inv": ("Missing_hstart", "Missing_hend")},
    "C07": {"mon": ("C07_",), "inv": ("Missing_hstart", "Missing_hend", "Missing_eof", "Missing_onclose", "Missing_stopret", "Missing_runret")},
    "C08": {"mon": ("C08_",), "inv": ("Missing_eof", "Missing_onclose", "Extra_onclose", "Extra_eof")},
    "C09": {"mon": ("C09_",), "inv": ()},
    "C10": {"mon": ("C10_", "C08_SocketClosedOnlyAfterHandlersReturned"), "inv": ("Extra_hstart", "Extra_hend", "Missing_hunbind", "Extra_hunbind", "Missing_eof")},
    "C11": {"mon": ("C11_",), "inv": ("Missing_stopret", "Missing_runret", "Extra_runret")},
    "C12": {"mon": ("C12_",), "inv": ("Missing_stopret",)},
    "C17": {"mon": ("C17_",), "inv": ("Missing_ready", "Extra_ready")},
}

FAMILIES = {
    # two connections, requests / unbind / malformed frames, holds, closes, Stop
    "general": dict(consts={"Conns": '{"c1", "c2"}', "MaxReq": "2", "FrameKinds": '{"op", "unbind", "bad"}'}, depth=6, cfgs=[{"unbind_route": "0"}, {"unbind_route": "1"}]),
    # one connection, pipelines of up to 4 frames, sent frame by frame and in one segment
    "pipeline": dict(consts={"Conns": '{"c1"}', "MaxReq": "4", "FrameKinds": '{"op", "unbind"}'}, depth=7,
                     cfgs=[{"unbind_route": "1", "coalesce": "1"}, {"unbind_route": "0", "coalesce": "1"}, {"unbind_route": "1"}],
                     must=lambda b: sum(1 for e in b if e["a"] == "send") >= 2),
    # Stop against idle / half-a-frame / not-reading / busy connections
    "stop": dict(consts={"Conns": '{"c1", "c2"}', "MaxReq": "2", "FrameKinds": '{"op", "partial"}', "AllowStopReading": "TRUE"}, depth=6,
                 cfgs=[{"unbind_route": "0"}], must=lambda b: any(e["a"] == "stop" for e in b)),
    # handler panics (recovered), with a bystander connection
    "panic": dict(consts={"Conns": '{"c1", "c2"}', "MaxReq": "2", "FrameKinds": '{"op", "unbind"}'}, depth=6, panic=True,
                  cfgs=[{"unbind_route": "1"}], must=lambda b: any(e["a"] == "panic" for e in b)),
}

DESIGN = {
    "quick": {"Conns": '{"c1"}', "MaxReq": "2", "FrameKinds": '{"op", "unbind", "partial", "bad"}'},
    "thorough": {"Conns": '{"c1", "c2"}', "MaxReq": "2", "FrameKinds": '{"op", "unbind", "partial", "bad"}'},
}
DESIGN_INV = ["ReqIDsInOrder", "NothingAfterUnbind", "Alive", "OnCloseAtMostOnce", "OnCloseAfterHandlers", "SocketClosedAfterHandlers",
              "ConnIDsUnique", "QuiescentAfterStop", "ReadyImpliesListening", "NoReadyOnListenFailure"]
LIVE = {"Conns": '{"c1"}', "MaxReq": "2", "FrameKinds": '{"op", "unbind", "partial", "bad"}'}
LIVE_PROPS = ["StopTerminates", "RunReturnsNil", "EventuallyTornDown"]


def attribute(pid, res, rows, scenarios):
    """violations of the trace validation that speak for property pid"""
    a = ATTR[pid]
    by_id = {s["id"]: s for s in scenarios}
    out, seen = [], set()
    for v in res.violations:
        if not v["states"]:
            continue
        st = v["states"][-1]["vars"]
        l = int(st.get("l", "0"))
        if l < 1 or l > len(rows):
            continue
        name = v["name"]
        if name == "OrderMonitors":
            name = st.get("bad", '""').strip('"')
            if not name.startswith(a["mon"]):
                continue
        elif name == "NotStuck":
            continue
        elif name not in a["inv"]:
            continue
        ev = rows[l - 1]
        sid = ev.get("scen")
        if (name, sid) in seen:
            continue
        seen.add((name, sid))
        sc = by_id.get(sid, {})
        envs = [[e["a"], e["c"], e["i"], e["k"], e["hold"]] for e in sc.get("behaviour", []) if e["a"] in scen.ENV]
        out.append({"signature": {"monitor": name, "cfg": sc.get("cfg"), "env": envs},
                    "what": "%s false in scenario %s %s (event %s)" % (name, json.dumps(sc.get("cfg")), json.dumps(envs),
                                                                      json.dumps({k: ev.get(k) for k in ("ev", "c", "i", "val", "n", "m", "held")})),
                    "replay": {"scenario": sc, "monitor": name, "trace": [r for r in rows if r.get("scen") == sid][:300]}})
    return out


def deep_script(n, tail=True, release=True):
    """n pipelined requests whose handlers all block, then an Unbind and one more request; then the handlers are released"""
    sc = [{"a": "run"}, {"a": "dial", "c": "c1"}]
    sc += [{"a": "send", "c": "c1", "k": "op", "hold": True} for _ in range(n)]
    if tail:
        sc += [{"a": "send", "c": "c1", "k": "unbind"}, {"a": "send", "c": "c1", "k": "op"}]
    if release:
        sc += [{"a": "release", "c": "c1", "i": i} for i in range(1, n + 1)]
    return sc


def conns_script(m, rnd):
    """m connections opened in waves, a request on each, some closed / unbound before the next wave; Stop at the end"""
    names = ["c%d" % i for i in range(1, m + 1)]
    sc = [{"a": "run"}]
    opened = []
    for w in range(0, m, 3):
        wave = names[w:w + 3]
        for c in wave:
            sc.append({"a": "dial", "c": c})
        for c in wave:
            sc.append({"a": "send", "c": c, "k": "op", "hold": rnd.random() < 0.3})
        opened += wave
        victim = rnd.choice(opened)
        opened.remove(victim)
        sc.append({"a": "send", "c": victim, "k": "unbind"} if rnd.random() < 0.5 else {"a": "close", "c": victim})
    return sc


def scripted_family(run, fam, quick):
    import random
    rnd = random.Random(run.seed)
    if fam == "deep":
        ns = [33 + rnd.randrange(8), 130 + rnd.randrange(20)] if quick else [33, 64, 129, 200, 256]
        scripts = [deep_script(n) for n in ns] + [deep_script(ns[0], tail=False)]
        consts = {"Conns": '{"c1"}', "MaxReq": str(max(ns) + 2), "FrameKinds": '{"op", "unbind"}'}
        cfgs = [{"unbind_route": "1", "coalesce": "1"}, {"unbind_route": "0", "coalesce": "1"}, {"unbind_route": "1"}]
    elif fam == "manyconns":
        ms = [6, 9] if quick else [6, 9, 12, 12]
        scripts = [conns_script(m, rnd) for m in ms]
        consts = {"Conns": "{" + ", ".join('"c%d"' % i for i in range(1, max(ms) + 1)) + "}", "MaxReq": "2", "FrameKinds": '{"op", "unbind"}'}
        cfgs = [{"unbind_route": "1"}, {"unbind_route": "0"}]
    else:
        raise vlib.Infra("unknown scripted family " + fam)
    behs = scen.scripted(run, scripts, consts)
    return [(b, dict(cfgs[n % len(cfgs)])) for n, b in enumerate(behs)]


SCRIPTED = {"deep", "manyconns"}


def run_families(run, names, cap):
    scenarios, stats = [], {}
    for fam in names:
        if fam in SCRIPTED:
            pairs = scripted_family(run, fam, run.quick())
            stats[fam] = {"behaviours": len(pairs), "scripted": True}
            for b, cfgv in pairs:
                cfgv["family"] = fam
                scenarios.append({"id": len(scenarios) + 1, "cfg": cfgv, "behaviour": b})
            continue
        f = FAMILIES[fam]
        consts = dict(f["consts"])
        behs, res = scen.behaviours(run, consts, f["depth"], allow_panic=f.get("panic", False), cap=cap, must_contain=f.get("must"))
        stats[fam] = {"behaviours": len(behs), "scen_states": res.distinct}
        for n, b in enumerate(behs):
            cfgv = dict(f["cfgs"][n % len(f["cfgs"])])
            cfgv["family"] = fam
            scenarios.append({"id": len(scenarios) + 1, "cfg": cfgv, "behaviour": b})
    return scenarios, stats


def check(run, pid, families, extra_design_props=None, level_note=""):
    q = run.quick()
    run.build()
    live = scen.design_check(run, LIVE, DESIGN_INV, properties=LIVE_PROPS, workers=4)
    mc = live if q else scen.design_check(run, DESIGN["thorough"], DESIGN_INV, workers=8)
    scenarios, stats = run_families(run, families, cap=1200 if q else None)
    rows, trace = scen.replay(run, scenarios, par=8)
    res = scen.validate(run, trace)
    viols = attribute(pid, res, rows, scenarios)
    nenv = sum(1 for s in scenarios for e in s["behaviour"] if e["a"] in scen.ENV)
    sample = scenarios[len(scenarios) // 2]
    cov = {"states": mc.distinct + (0 if q else live.distinct), "transitions": mc.generated + (0 if q else live.generated),
           "traces_validated_against_impl": len(scenarios),
           "samples": [{"cfg": sample["cfg"], "behaviour": [[e["a"], e["c"], e["i"], e["k"], e["hold"]] for e in sample["behaviour"]],
                        "trace": [[r["ev"], r["c"], r["i"], r["val"]] for r in rows if r.get("scen") == sample["id"]][:40]}],
           "evaluations": nenv, "distinct_nontrivial": len({json.dumps([e for e in s["behaviour"] if e["a"] in scen.ENV]) for s in scenarios if any(e["hold"] or e["a"] in ("stop", "close", "panic") for e in s["behaviour"])}),
           "families": stats, "trace_events": len(rows),
           "rule": "TLC enumerates the behaviours of Scen.tla (Gldap.tla in quiescent normal form) up to the family's number of environment actions, "
                   "deduplicated by environment-action sequence; each is replayed on a real server (children processes, crash and hang detection); "
                   "non-trivial = contains a held handler, a close, a panic or a Stop"}
    return vlib.finish(run, "model_checking", cov, viols, ASSUME)


ASSUME = ["behaviours are in quiescent normal form: the harness takes the next environment action only after the observable events the model predicts "
          "have been seen (positive signals; bounded waits) - interleavings inside gldap's own code between those points are left to the Go scheduler",
          "a connection's tag is learned from message ids; scheduling gates (build tag verif) are used for synchronisation only, never for a verdict",
          "operation kinds rotate over bind/search/modify/add/delete per frame and seed"]


def replay(run, pid, path):
    rp = json.load(open(path))
    run.build()
    sc = rp["replay"]["scenario"]
    n = 0
    for k in range(5):
        rows, trace = scen.replay(run, [dict(sc, id=1)], par=1)
        res = scen.validate(run, trace)
        viols = attribute(pid, res, rows, [dict(sc, id=1)])
        if viols:
            n += 1
            print("REPRODUCED property=%s %s" % (pid, viols[0]["what"]))
    print("replay: reproduced in %d of 5 runs" % n)
    return 1 if n else 0
