"""C14: controls survive encode and decode in both directions (Ctl.tla)."""
import json
import vlib

MON = "RequestDirection BindResponseStrict DoneResponseStrict BindResponseGoLdap DoneResponseGoLdap BeheraConforms"
ASSUME = ["integer symbols 0/1/2 are concretised as 0 / a seed-chosen mid value / the field's maximum (2^32-1 page size, 2^31-1 grace, expire); "
          "string symbols as seed-chosen cookies / values (binary and 200-byte variants)",
          "go-ldap v3.4.6 dereferences nil on a Behera control without a value: for lists containing it the go-ldap view is skipped, the strict parser's is not"]


def cfg(n, body):
    return "CONSTANT ListLen = %d\n%s" % (n, body)


def validate(run, obs, n):
    return run.tlc("CtlTrace", cfg(n, "INIT InitT\nNEXT NextT\nINVARIANTS %s\nCHECK_DEADLOCK FALSE\n" % MON),
                   env={"OBS": obs}, workers=1, cont=True, timeout=1800, heap="8g")


def viols_from(res, rows):
    out, seen = [], set()
    for v in res.violations:
        if not v["states"]:
            continue
        l = int(v["states"][-1]["vars"].get("l", "0"))
        if l < 1 or l > len(rows) or (v["name"], l) in seen:
            continue
        seen.add((v["name"], l))
        o = rows[l - 1]
        vec = {"k": o["k"], "cs": o.get("cs", [])}
        if o.get("a") is not None:
            vec["a"] = o["a"]
        out.append({"signature": {"monitor": v["name"], "vector": vec},
                    "what": "%s false for %s" % (v["name"], json.dumps(vec)), "replay": {"vector": vec, "observation": o}})
    return out


def check(run):
    n = 2 if run.quick() else 3
    run.build()
    vec = run.path("v14.ndjson")
    gen = run.tlc("CtlGen", cfg(n, "INIT CInit\nNEXT CNext\nINVARIANT CtlDesign\nCHECK_DEADLOCK FALSE\n"), env={"OUT": vec}, workers=1, timeout=1800, heap="8g")
    if gen.violations:
        raise vlib.Infra("design model Ctl violates %s" % gen.violations[0]["name"])
    obs = run.path("o14.ndjson")
    run.harness(["c14", "-in", vec, "-out", obs, "-par", "8"], timeout=3000)
    rows = vlib.read_ndjson(obs)
    bad = [r for r in rows if r.get("err")]
    res = validate(run, obs, n)
    viols = viols_from(res, rows)
    if bad and not viols:
        raise vlib.Infra("harness could not exercise %d vectors: %s" % (len(bad), bad[0].get("err")))
    nlists = sum(1 for r in rows if r["k"] == "list")
    cov = {"states": res.distinct, "transitions": res.generated, "traces_validated_against_impl": len(rows),
           "samples": [rows[1], rows[len(rows) // 2]], "evaluations": nlists * 5 + (len(rows) - nlists),
           "distinct_nontrivial": sum(1 for r in rows if r["k"] == "behera" or len(r["cs"]) >= 2),
           "go_ldap_views_skipped": sum(1 for r in rows if r["k"] == "list" and not r.get("goldap_ok")), "exhaustive": True,
           "rule": "every list of <= 2 controls over the 46 constructible control values (thorough: + triples over a reduced set), each sent in gldap's own "
                   "encoding as request controls and set on a Bind and a SearchDone response (5 views per list: request decoder, strict parser x2, go-ldap x2); "
                   "every combination of Behera constructor options; non-trivial = list of >= 2 controls or a Behera constructor call"}
    return vlib.finish(run, "model_checking", cov, viols, ASSUME)


def replay(run, path):
    rp = json.load(open(path))
    run.build()
    vec = run.path("rv.ndjson")
    vlib.write_ndjson(vec, [rp["replay"]["vector"]])
    obs = run.path("ro.ndjson")
    run.harness(["c14", "-in", vec, "-out", obs, "-par", "1"])
    rows = vlib.read_ndjson(obs)
    viols = viols_from(validate(run, obs, 3), rows)
    for v in viols:
        print("REPRODUCED property=C14 %s" % v["what"])
    print("replay: %d violation(s)" % len(viols))
    return 1 if viols else 0
