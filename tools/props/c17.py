"""C17: see props/lifecycle.py (Gldap.tla, Scen.tla, GldapTrace.tla)."""
from props import lifecycle


def check(run):
    return lifecycle.check(run, "C17", ["ready", "general"])


def replay(run, path):
    return lifecycle.replay(run, "C17", path)
