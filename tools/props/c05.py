"""C05: concurrent handlers never tear, merge, lose or duplicate response frames (Writer.tla, WriterTrace.tla)."""
import json
import vlib

ASSUME = ["every frame carries writer, sequence number, length and checksum of its payload; the client parses the stream with the harness's strict "
          "incremental BER / LDAPMessage parser",
          "the adversarial interleaving inside the write critical section is forced with the verif gates write.locked / write.pre_flush; "
          "all other rounds rely on the Go scheduler (GOMAXPROCS 1, 2, 16), frame sizes around and beyond the 4096-byte buffer and client back-pressure"]

WCFG = ("CONSTANTS\n  Writers = {w1, w2, w3}\n  FramesPerWriter = %d\n  ChunksPerFrame = 2\n  BufChunks = 1\n  UseLock = %s\n  FlushInsideLock = %s\n"
        "SPECIFICATION WSpec\nINVARIANTS WireIsWholeFrames NoDup NoLoss PerWriterOrder\nCHECK_DEADLOCK FALSE\n")
TCFG = "INIT InitT\nNEXT NextT\nINVARIANTS OrderMonitors NoLoss NoInvention NotStuck\nCHECK_DEADLOCK FALSE\n"


def check(run):
    q = run.quick()
    run.build()
    mc = run.tlc("Writer", WCFG % (2 if q else 3, "TRUE", "TRUE"), workers=4, timeout=3000)
    if mc.violations:
        raise vlib.Infra("design model Writer.tla violates %s (model-only)" % mc.violations[0]["name"])
    # anti-vacuity: without the lock, or flushing outside it, TLC must produce a torn stream
    for ul, fi in (("FALSE", "TRUE"), ("TRUE", "FALSE")):
        v = run.tlc("Writer", WCFG % (1, ul, fi), workers=2, timeout=600)
        if not v.violations:
            raise vlib.Infra("Writer.tla variant UseLock=%s FlushInsideLock=%s has no counterexample: the invariants are vacuous" % (ul, fi))
    trace = run.path("t05.ndjson")
    run.harness(["c05", "-out", trace, "-tier", run.tier], timeout=3000)
    rows = vlib.read_ndjson(trace)
    res = run.tlc("WriterTrace", TCFG, env={"OBS": trace}, workers=1, cont=True, timeout=3000, heap="12g")
    rounds = {}
    for r in rows:
        if r["ev"] == "reset":
            rounds[r["scen"]] = r["val"]
    viols, seen = [], set()
    for v in res.violations:
        if not v["states"]:
            continue
        st = v["states"][-1]["vars"]
        l = int(st.get("l", "0"))
        if l < 1 or l > len(rows):
            continue
        name = v["name"]
        if name == "OrderMonitors":
            name = st.get("bad", '""').strip('"')
        if name == "NotStuck":
            continue
        ev = rows[l - 1]
        key = (name, ev["scen"])
        if key in seen:
            continue
        seen.add(key)
        viols.append({"signature": {"monitor": name, "round": rounds.get(ev["scen"])},
                      "what": "%s false in round %s at %s" % (name, rounds.get(ev["scen"]), json.dumps({k: ev[k] for k in ("ev", "c", "i", "val", "n")})),
                      "replay": {"round": rounds.get(ev["scen"]), "monitor": name, "seed": run.seed,
                                 "trace": [r for r in rows if r["scen"] == ev["scen"]][:200]}})
    nrecv = sum(1 for r in rows if r["ev"] == "recv")
    cov = {"states": mc.distinct, "transitions": mc.generated, "traces_validated_against_impl": len(rounds),
           "samples": [{"round": rounds[k]} for k in list(rounds)[:2]] + [[r["ev"], r["c"], r["i"], r["val"]] for r in rows[1:8]],
           "evaluations": nrecv, "distinct_nontrivial": len(set(rounds.values())), "frames_received": nrecv,
           "rule": "rounds = {gate-forced overlap at write.locked / write.pre_flush} x {plain, TLS} + {2, 8, 64 (thorough: 300) concurrent writers} x "
                   "{plain, TLS, StartTLS-upgraded} x random {GOMAXPROCS, slow client, frame size class} + Stop while 8 writers are stalled on a client "
                   "that reads late; one trace per round; distinct = distinct round parameters"}
    return vlib.finish(run, "model_checking", cov, viols, ASSUME)


def replay(run, path):
    rp = json.load(open(path))
    run.seed = rp.get("seed", run.seed)
    return check(run)
