"""C16: exported helpers and constructors are total (Helpers.tla)."""
import json
import vlib

ASSUME = ["byte strings are enumerated by form (tag x length form x number of length octets present x content length class); contents are random per seed",
          "constructors that need a *Request run inside a handler on a live connection and every response built is also written"]


def cfg(n, body):
    return "CONSTANT OptLen = %d\n%s" % (n, body)


def validate(run, obs, n):
    return run.tlc("HelpersTrace", cfg(n, "INIT InitT\nNEXT NextT\nINVARIANTS NoPanic OutcomeConforms ValueConforms\nCHECK_DEADLOCK FALSE\n"),
                   env={"OBS": obs}, workers=1, cont=True, timeout=1800, heap="8g")


def viols_from(res, rows):
    out, seen = [], set()
    for v in res.violations:
        if not v["states"]:
            continue
        l = int(v["states"][-1]["vars"].get("l", "0"))
        if l < 1 or l > len(rows) or (v["name"], l) in seen:
            continue
        seen.add((v["name"], l))
        o = rows[l - 1]
        vec = {k: o[k] for k in ("k", "args", "x", "c", "opts", "names") if k in o}
        out.append({"signature": {"monitor": v["name"], "vector": vec},
                    "what": "%s false for %s -> %s %s" % (v["name"], json.dumps(vec), o.get("outcome"), o.get("panic", "")),
                    "replay": {"vector": vec, "observation": o}})
    return out


def check(run):
    n = 2 if run.quick() else 3
    run.build()
    vec = run.path("v16.ndjson")
    gen = run.tlc("HelpersGen", cfg(n, "INIT HInit\nNEXT HNext\nINVARIANT HelpersDesign\nCHECK_DEADLOCK FALSE\n"), env={"OUT": vec}, workers=1, timeout=1800, heap="8g")
    if gen.violations:
        raise vlib.Infra("design model Helpers violates %s" % gen.violations[0]["name"])
    obs = run.path("o16.ndjson")
    run.harness(["c16", "-in", vec, "-out", obs], timeout=3000)
    rows = vlib.read_ndjson(obs)
    res = validate(run, obs, n)
    viols = viols_from(res, rows)
    kinds = {}
    for r in rows:
        kinds[r["k"]] = kinds.get(r["k"], 0) + 1
    nontriv = sum(1 for r in rows if r["k"] != "cons" or len(r.get("opts", [])) > 0)
    cov = {"states": res.distinct, "transitions": res.generated, "traces_validated_against_impl": len(rows),
           "samples": [rows[0], rows[len(rows) // 2], rows[-1]], "evaluations": len(rows), "distinct_nontrivial": nontriv,
           "by_kind": kinds, "exhaustive": True,
           "rule": "every ConvertString input form (and pairs), every SID input form, every constructor x every sequence of <= %d option tokens "
                   "(including nil and options of other families), NewEntry over maps with case-variant names; all vectors are distinct by "
                   "construction; non-trivial = not a constructor call without options" % n}
    return vlib.finish(run, "model_checking", cov, viols, ASSUME)


def replay(run, path):
    rp = json.load(open(path))
    run.build()
    vec = run.path("rv.ndjson")
    vlib.write_ndjson(vec, [rp["replay"]["vector"]])
    obs = run.path("ro.ndjson")
    run.harness(["c16", "-in", vec, "-out", obs])
    rows = vlib.read_ndjson(obs)
    viols = viols_from(validate(run, obs, 3), rows)
    for v in viols:
        print("REPRODUCED property=C16 %s" % v["what"])
    print("replay: %d violation(s)" % len(viols))
    return 1 if viols else 0
