"""Shared pipeline for life-cycle behaviours: Gldap.tla (design check) -> Scen.tla (behaviours in quiescent normal form) ->
gv scen (replay on the real server, ND-JSON event trace) -> GldapTrace.tla (monitors)."""
import json, random
import vlib

ENV = {"run", "stop", "dial", "close", "send", "release", "panic", "stopreading", "emfile", "timeout"}

BASE = {"Conns": '{"c1", "c2"}', "MaxReq": "2", "Stoppers": '{"s1"}', "FrameKinds": '{"op", "unbind", "bad"}', "DoneLast": "TRUE",
        "RegisterLocked": "TRUE", "CloseOnCtx": "TRUE", "WakeOnCancel": "TRUE", "HandlerRecover": "TRUE",
        "ReadyOnlyIfListening": "TRUE", "ListenFails": "FALSE", "AcceptErrorsFatal": "FALSE", "TLSMode": '"none"', "ReadTimeout": "FALSE"}


def cfg(consts, body):
    c = dict(BASE)
    c.update(consts)
    return "CONSTANTS\n" + "\n".join("  %s = %s" % kv for kv in c.items()) + "\n" + body


def design_check(run, consts, invariants, properties=None, workers=8, timeout=3000):
    body = "SPECIFICATION Spec\nINVARIANTS TypeOK %s\n" % " ".join(invariants)
    if properties:
        body += "PROPERTIES %s\n" % " ".join(properties)
    body += "CHECK_DEADLOCK FALSE\n"
    mc = run.tlc("Gldap", cfg(consts, body), workers=workers, timeout=timeout)
    if mc.violations:
        raise vlib.Infra("design model Gldap.tla violates %s (model-only: fix the spec)" % (mc.violations[0]["name"] or mc.violations[0]["kind"]))
    return mc


def variant_must_fail(run, consts, flip, invariants, properties=None):
    """anti-vacuity: with one implementation variant flipped TLC must find a counterexample"""
    c = dict(consts)
    c.update(flip)
    body = "SPECIFICATION Spec\nINVARIANTS %s\n" % " ".join(invariants)
    if properties:
        body += "PROPERTIES %s\n" % " ".join(properties)
    body += "CHECK_DEADLOCK FALSE\n"
    r = run.tlc("Gldap", cfg(c, body), workers=4, timeout=900)
    return bool(r.violations)


def unsyncable(b):
    """a frame sent, after Stop has been called, to a client that does not read: the harness cannot see the notice of
    disconnection there, so it cannot know whether the read loop is already gone when it sends (a legitimate race)"""
    stopped, deaf = False, set()
    for e in b:
        if e["a"] == "stop":
            stopped = True
        elif e["a"] == "stopreading":
            deaf.add(e["c"])
        elif e["a"] == "send" and stopped and e["c"] in deaf:
            return True
    return False


def behaviours(run, consts, depth, allow_panic=False, extra_inv="", cap=None, must_contain=None, simulate=None):
    """TLC explores Scen.tla (exhaustively, or - simulate=N - along N random behaviours); returns behaviours deduplicated by
    their environment-action sequence"""
    c = dict(consts)
    c["Depth"] = str(depth)
    c["AllowPanic"] = "TRUE" if allow_panic else "FALSE"
    c.setdefault("AllowStopReading", "FALSE")
    c.setdefault("AllowAcceptFault", "FALSE")
    c.setdefault("AllowSilent", "FALSE")
    c.setdefault("AllowTimeout", "FALSE")
    body = "SPECIFICATION SSpec\nINVARIANTS Emit %s\nCHECK_DEADLOCK FALSE\n" % extra_inv
    if simulate:
        res = run.tlc("Scen", cfg(c, body), workers=1, timeout=3000, simulate="num=%d" % simulate, depth=40 * depth, extra=["-seed", str(run.seed)])
    else:
        res = run.tlc("Scen", cfg(c, body), workers=8, timeout=3000)
    if res.violations:
        raise vlib.Infra("scenario model violates %s (model-only)" % res.violations[0]["name"])
    seen, out = set(), []
    for line in res.out.splitlines():
        if not line.startswith('"{\\"behaviour'):
            continue
        b = json.loads(json.loads(line))["behaviour"]
        key = json.dumps([e for e in b if e["a"] in ENV], sort_keys=True)
        if key in seen:
            continue
        seen.add(key)
        if must_contain and not must_contain(b):
            continue
        if unsyncable(b):
            continue
        out.append(b)
    rnd = random.Random(run.seed)
    rnd.shuffle(out)
    if cap and len(out) > cap:
        out = out[:cap]
    return out, res


def coalesce(b):
    """merge runs of sends to one connection (with nothing but their predicted events in between) is left to the
    harness: here we only mark behaviours; the runner sends frames one step at a time"""
    return b


def replay(run, scenarios, par=8, race=False, timeout=3000):
    """scenarios: [{'id','cfg','behaviour'}]; returns the trace rows"""
    sfile = run.path("scen.ndjson")
    vlib.write_ndjson(sfile, scenarios)
    trace = run.path("trace.ndjson")
    args = ["scen", "-in", sfile, "-out", trace, "-par", str(par)]
    if race:
        args += ["-bin", run.build(race=True)]
    run.harness(args, timeout=timeout)
    return vlib.read_ndjson(trace), trace


ALL_INV = ["OrderMonitors", "NotStuck", "EveryWriteArrives"] + ["Missing_" + k for k in ("hstart", "hend", "hunbind", "eof", "onclose", "stopret", "runret", "ready")] + \
          ["Extra_" + k for k in ("hstart", "hend", "hunbind", "eof", "onclose", "stopret", "runret", "ready")] + \
          ["Late_" + k for k in ("hstart", "hend", "eof", "onclose", "stopret", "runret")]


def validate(run, trace, invariants=None, timeout=3000, first=()):
    """first: invariants to evaluate first - TLC -continue reports only the first violated invariant of a state, so the
    invariants that speak for the property being checked must come before the others or they would be masked"""
    invariants = invariants or ALL_INV
    invariants = [i for i in first if i in invariants] + [i for i in invariants if i not in first]
    body = "INIT InitT\nNEXT NextT\nINVARIANTS %s\nCHECK_DEADLOCK FALSE\n" % " ".join(invariants)
    return run.tlc("GldapTrace", body, env={"OBS": trace}, workers=1, cont=True, timeout=timeout, heap="12g")


def viols_from(res, rows, scenarios, monitors=None):
    by_id = {s["id"]: s for s in scenarios}
    out, seen = [], set()
    for v in res.violations:
        if monitors and v["name"] not in monitors:
            continue
        if not v["states"]:
            continue
        l = int(v["states"][-1]["vars"].get("l", "0"))
        if l < 1 or l > len(rows):
            continue
        ev = rows[l - 1]
        sid = ev.get("scen")
        if (v["name"], sid) in seen:
            continue
        seen.add((v["name"], sid))
        sc = by_id.get(sid, {})
        envs = [[e["a"], e["c"], e["i"], e["k"], e["hold"]] for e in sc.get("behaviour", []) if e["a"] in ENV]
        out.append({"signature": {"monitor": v["name"], "cfg": sc.get("cfg"), "env": envs},
                    "what": "%s false at event %s of scenario %s %s" % (v["name"], json.dumps({k: ev[k] for k in ("ev", "c", "i", "val", "n", "m", "held")}), sc.get("cfg"), json.dumps(envs)),
                    "replay": {"scenario": sc, "event": ev, "monitor": v["name"],
                               "trace": [r for r in rows if r.get("scen") == sid][:200]}})
    return out


def scripted(run, scripts, consts):
    """scripts: list of env-action lists; TLC (ScenScript.tla) computes the predicted events for each (all in one run).
    Returns behaviours (list of event lists) in the same order; incomplete scripts raise Infra."""
    run.nscript = getattr(run, "nscript", 0) + 1
    sf = run.path("script_%d.ndjson" % run.nscript)
    vlib.write_ndjson(sf, [{"script": [dict({"a": "", "c": "", "i": 0, "k": "", "s": "", "hold": False}, **e) for e in sc]} for sc in scripts])
    c = dict(consts)
    c.setdefault("Depth", "0")
    c.setdefault("AllowPanic", "FALSE")
    c.setdefault("AllowStopReading", "FALSE")
    c.setdefault("AllowAcceptFault", "FALSE")
    c.setdefault("AllowSilent", "FALSE")
    c.setdefault("AllowTimeout", "FALSE")
    body = "SPECIFICATION ScriptSpec\nINVARIANTS EmitScript\nCHECK_DEADLOCK FALSE\n"
    res = run.tlc("ScenScript", cfg(c, body), env={"SCRIPT": sf}, workers=1, timeout=1800, heap="8g")
    best = {}
    for line in res.out.splitlines():
        if line.startswith('"{'):
            try:
                o = json.loads(json.loads(line))
            except Exception:
                continue
            if "behaviour" in o and o.get("complete"):
                best[o["script"]] = o["behaviour"]
    out = []
    for n in range(len(scripts)):
        if n + 1 not in best:
            raise vlib.Infra("script %d (%s ...) could not be executed completely by the model" % (n, json.dumps(scripts[n])[:200]))
        out.append(best[n + 1])
    return out
