"""C12: see props/lifecycle.py (Gldap.tla, Scen.tla, GldapTrace.tla)."""
from props import lifecycle


def check(run):
    return lifecycle.check(run, "C12", ["stop", "stop2", "pipeline", "stopstates", "general", "long"])


def replay(run, path):
    return lifecycle.replay(run, "C12", path)
