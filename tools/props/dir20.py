"""Shared pipeline for the Directory behaviours (C20 and the history part of C19)."""
import json, random
import vlib

MC_CFG = ("CONSTANTS Depth = %d Focus = \"%s\"\nSPECIFICATION Spec20\nINVARIANTS UniqueUserDNs CodesOK%s\n"
          "PROPERTIES AddFound DeleteGone ModifyMissing\nCHECK_DEADLOCK FALSE\n")
SIM_CFG = "CONSTANTS Depth = %d Focus = \"%s\"\nSPECIFICATION Spec20\nINVARIANTS UniqueUserDNs CodesOK Emit\nCHECK_DEADLOCK FALSE\n"
TRACE_CFG = "INIT InitT\nNEXT NextT\nINVARIANTS ReplyConforms SearchConforms SearchCodesConform GenericSearchConforms TokenGroupsConform BindConforms BackgroundBindsConform NotStuck\nCHECK_DEADLOCK FALSE\n"


def behaviours_of(out):
    res = []
    for line in out.splitlines():
        if line.startswith('"{\\"behaviour'):
            res.append(json.loads(json.loads(line))["behaviour"])
    return res


def run_pipeline(run, exh_depth, sim_depth, sim_num, sim_cap, focus="all", bgbind=False, exh_cap=40000):
    """returns dict(mc, behaviours, rows, res).  The design model is always checked exhaustively to exh_depth; of its behaviours all
    of length exh_depth-1 are replayed on the implementation, and of those of full length a seeded sample when there
    are more than exh_cap (the alphabet has grown to where length 3 alone is 470 000 behaviours)."""
    mc = run.tlc("Dir20", MC_CFG % (exh_depth, focus, " Emit"), workers=4, timeout=1800)
    if mc.violations:
        raise vlib.Infra("design model Dir20 violates %s (model-only)" % mc.violations[0]["name"])
    behs = behaviours_of(mc.out)
    nall = len(behs)
    if len(behs) > exh_cap:
        # Emit prints full-length behaviours only: take every behaviour one step shorter from a second exhaustive run
        mc1 = run.tlc("Dir20", MC_CFG % (exh_depth - 1, focus, " Emit"), workers=4, timeout=1800)
        short = behaviours_of(mc1.out)
        full = behs
        random.Random(run.seed * 7919 + 1).shuffle(full)
        behs = short + full[:max(0, exh_cap - len(short))]
    sim = run.tlc("Dir20", SIM_CFG % (sim_depth, focus), workers=1, timeout=900, simulate="num=%d" % sim_num,
                  depth=sim_depth + 2, extra=["-seed", str(run.seed)])
    sb = behaviours_of(sim.out)
    seen, uniq = set(), []
    for b in sb:
        k = json.dumps(b, sort_keys=True)
        if k not in seen:
            seen.add(k)
            uniq.append(b)
    random.Random(run.seed).shuffle(uniq)
    behs += uniq[:sim_cap]
    bfile = run.path("b20.ndjson")
    vlib.write_ndjson(bfile, [{"behaviour": b} for b in behs])
    obs = run.path("o20.ndjson")
    run.harness(["c20", "-in", bfile, "-out", obs, "-par", "8"] + (["-bgbind"] if bgbind else []), timeout=3000)
    rows = vlib.read_ndjson(obs)
    res = run.tlc("Dir20Trace", TRACE_CFG, env={"OBS": obs}, workers=1, cont=True, timeout=1800, heap="8g")
    return {"mc": mc, "behaviours": behs, "rows": rows, "res": res, "nexh": len(behs) - len(uniq[:sim_cap]), "nexh_model": nall, "nsim": len(uniq[:sim_cap])}


def trace_of(rows, l):
    """the recorded trace (reset .. line l) that contains line l (1-based)"""
    i = l - 1
    while i > 0 and rows[i]["op"] != "reset":
        i -= 1
    j = l
    while j < len(rows) and rows[j]["op"] != "reset":
        j += 1
    return rows[i:j], l - 1 - i


def viols_from(pid, res, rows, monitors):
    out, seen = [], set()
    for v in res.violations:
        if v["name"] not in monitors or not v["states"]:
            continue
        l = int(v["states"][-1]["vars"].get("l", "0"))
        if l < 1 or l > len(rows):
            continue
        tr, pos = trace_of(rows, l)
        ops = [{k: e[k] for k in ("op", "dn", "attrs", "chs", "pw", "b")} for e in tr[1:]]
        key = (v["name"], json.dumps(ops[:pos], sort_keys=True))
        if key in seen:
            continue
        seen.add(key)
        bad = tr[pos] if pos < len(tr) else {}
        out.append({"signature": {"monitor": v["name"], "ops": ops[:pos]},
                    "what": "%s false after %s" % (v["name"], json.dumps([[o["op"], o["dn"]] for o in ops[:pos]])),
                    "replay": {"behaviour": ops, "failing_step": pos, "observed": bad, "monitor": v["name"]}})
    return out


def replay(run, pid, path, monitors):
    rp = json.load(open(path))
    run.build()
    bfile = run.path("rb.ndjson")
    vlib.write_ndjson(bfile, [{"behaviour": rp["replay"]["behaviour"]}])
    obs = run.path("ro.ndjson")
    run.harness(["c20", "-in", bfile, "-out", obs, "-par", "1"])
    rows = vlib.read_ndjson(obs)
    res = run.tlc("Dir20Trace", TRACE_CFG, env={"OBS": obs}, workers=1, cont=True, timeout=600)
    viols = viols_from(pid, res, rows, monitors)
    for v in viols:
        print("REPRODUCED property=%s %s" % (pid, v["what"]))
    print("replay: %d violation(s)" % len(viols))
    return 1 if viols else 0
