"""C01: a decoded request carries exactly what the client sent (Ber.tla, Req.tla)."""
import json
import vlib

ASSUME = ["symbols are concretised per VERIF_SEED (strings: empty, binary, 127/128/65535/65536 bytes, non-ASCII; ids 0, a boundary value, 2^31-1, random)",
          "filters come from a 12-shape corpus compiled by go-ldap and are compared semantically (recompiled bytes)",
          "modify values are accepted plain or in the BER-wrapped form; the extended-operation name is observed through the route that fired"]


def cfg(level, body):
    return "CONSTANT Level = %d\n%s" % (level, body)


def validate(run, obs, level):
    return run.tlc("ReqTrace", cfg(level, "INIT InitT\nNEXT NextT\nINVARIANTS Delivered Answered NotDelivered\nCHECK_DEADLOCK FALSE\n"),
                   env={"OBS": obs}, workers=1, cont=True, timeout=3000, heap="12g")


def viols_from(res, rows):
    out, seen = [], set()
    for v in res.violations:
        if not v["states"]:
            continue
        l = int(v["states"][-1]["vars"].get("l", "0"))
        if l < 1 or l > len(rows) or (v["name"], l) in seen:
            continue
        seen.add((v["name"], l))
        o = rows[l - 1]
        out.append({"signature": {"monitor": v["name"], "request": o["r"]},
                    "what": "%s false for request %s; handlers saw %s" % (v["name"], json.dumps(o["r"])[:300], json.dumps(o["seen"])[:300]),
                    "replay": {"request": o["r"], "observation": o}})
    return out


def check(run):
    level = 1 if run.quick() else 2
    run.build()
    vec = run.path("v01.ndjson")
    gen = run.tlc("ReqGen01", cfg(level, "INIT CInit\nNEXT GNext\nINVARIANTS C01Design\nCHECK_DEADLOCK FALSE\n"), env={"OUT": vec}, workers=1, timeout=3000, heap="12g")
    if gen.violations:
        raise vlib.Infra("design model Req violates %s (model-only)" % gen.violations[0]["name"])
    obs = run.path("o01.ndjson")
    run.harness(["c01", "-in", vec, "-out", obs, "-par", "8"], timeout=3000)
    rows = vlib.read_ndjson(obs)
    res = validate(run, obs, level)
    viols = viols_from(res, rows)
    bad = [r for r in rows if r.get("err")]
    if bad and not viols:
        raise vlib.Infra("harness could not exercise %d vectors: %s" % (len(bad), bad[0].get("err")))
    ops = {}
    for r in rows:
        ops[r["r"]["op"]] = ops.get(r["r"]["op"], 0) + 1
    cov = {"states": res.distinct, "transitions": res.generated, "traces_validated_against_impl": len(rows),
           "samples": [{"request": rows[i]["r"], "seen": rows[i]["seen"]} for i in (0, len(rows) // 2)],
           "evaluations": len(rows), "distinct_nontrivial": sum(1 for r in rows if r["r"]["ctls"] or r["r"]["attrs"] or r["r"]["changes"] or r["r"]["addattrs"] or r["r"]["dn"] not in ("", "s0")),
           "by_operation": ops, "exhaustive": True,
           "rule": "per operation the product of field alphabets (ids, strings incl. empty, scope, deref, types-only, distinct size/time limits, 12 filters, "
                   "attribute lists, change lists, attribute/value lists) plus every request control (gldap-encodable forms, explicit FALSE criticality, "
                   "criticality on typed controls) alone and in pairs in both orders, plus unsupported operations and bind versions != 3; TLC checks "
                   "Decode(EncodeRequest(r)) = r on all of them (C01Design); each is serialised by the harness's own encoder and sent; distinct by "
                   "construction; non-trivial = has controls / attributes / changes or a non-empty DN"}
    return vlib.finish(run, "model_checking", cov, viols, ASSUME)


def replay(run, path):
    rp = json.load(open(path))
    run.build()
    # the tree comes from the spec again: regenerate and pick the request
    vec = run.path("v01.ndjson")
    run.tlc("ReqGen01", cfg(2, "INIT CInit\nNEXT GNext\nCHECK_DEADLOCK FALSE\n"), env={"OUT": vec}, workers=1, timeout=3000, heap="12g")
    want = json.dumps(rp["replay"]["request"], sort_keys=True)
    rows = [r for r in vlib.read_ndjson(vec) if json.dumps(r["r"], sort_keys=True) == want]
    if not rows:
        raise vlib.Infra("request of the replay file is not in the generated set")
    one = run.path("rv.ndjson")
    vlib.write_ndjson(one, rows[:1])
    obs = run.path("ro.ndjson")
    run.harness(["c01", "-in", one, "-out", obs, "-par", "1"])
    orows = vlib.read_ndjson(obs)
    viols = viols_from(validate(run, obs, 2), orows)
    for v in viols:
        print("REPRODUCED property=C01 %s" % v["what"])
    print("replay: %d violation(s)" % len(viols))
    return 1 if viols else 0
