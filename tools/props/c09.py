"""C09: see props/lifecycle.py (Gldap.tla, Scen.tla, GldapTrace.tla)."""
from props import lifecycle


def check(run):
    return lifecycle.check(run, "C09", ["general", "manyconns", "outliving", "long"])


def replay(run, path):
    return lifecycle.replay(run, "C09", path)
