"""C20: test directory add/modify/delete/search behave like a consistent store (Directory.tla, Dir20.tla)."""
import json
import vlib
from props import dir20

MON = {"ReplyConforms", "SearchConforms", "SearchCodesConform", "GenericSearchConforms", "TokenGroupsConform", "NotStuck"}
ASSUME = ["pool DNs are ASCII and not substrings of one another (the property's precondition; the directory matches DNs by substring of the "
          "decompiled filter string, which escapes non-ASCII bytes)",
          "values found are compared as plain or BER-wrapped form, attributes as a set of (name, bag of values)",
          "replace is generated only for attributes the entry has; increment is not generated"]


def check(run):
    run.build()
    if run.quick():
        p = dir20.run_pipeline(run, 2, 12, 60, 400)
    else:
        p = dir20.run_pipeline(run, 3, 30, 300, 4000)
    viols = dir20.viols_from("C20", p["res"], p["rows"], MON)
    rows = p["rows"]
    nops = sum(1 for r in rows if r["op"] != "reset")
    distinct = len({json.dumps(b, sort_keys=True) for b in p["behaviours"] if any(e["op"] in ("add", "modify", "delete") for e in b)})
    sample = [[{k: e[k] for k in ("op", "dn", "code")} for e in rows[1:4]]] if len(rows) > 3 else []
    cov = {"states": p["mc"].distinct, "transitions": p["mc"].generated, "traces_validated_against_impl": len(p["behaviours"]),
           "samples": sample + [p["behaviours"][-1]], "evaluations": nops, "distinct_nontrivial": distinct,
           "exhaustive_behaviours": p["nexh"], "exhaustive_behaviours_in_model": p["nexh_model"], "simulated_behaviours": p["nsim"],
           "rule": "all operation sequences of length %d over the pool (exhaustive in the model, TLC BFS with history variable; replayed: all shorter ones and, "
                   "when the full-length ones exceed the cap, a seeded sample of them - see exhaustive_behaviours vs exhaustive_behaviours_in_model) plus TLC -simulate behaviours; "
                   "each replayed on a real test directory by two alternating clients (plain and TLS directories); after every operation all "
                   "pool DNs are searched; non-trivial = distinct behaviour containing at least one add/modify/delete" % (2 if run.quick() else 3)}
    return vlib.finish(run, "model_checking", cov, viols, ASSUME)


def replay(run, path):
    return dir20.replay(run, "C20", path, MON)
