"""C10: see props/lifecycle.py (Gldap.tla, Scen.tla, GldapTrace.tla)."""
from props import lifecycle


def check(run):
    return lifecycle.check(run, "C10", ["general", "pipeline", "deep", "panic", "long"])


def replay(run, path):
    return lifecycle.replay(run, "C10", path)
