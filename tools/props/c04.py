"""C04: responses reach the client with the request's message id and the values set (Resp.tla)."""
import json
import vlib

MON = "FramesConform TagConforms ResultConforms EntryConforms ControlsConform"
ASSUME = ["result code symbols 0/1/2 = 0 / seed-chosen mid value / 32767; strings s1/s2 seed-chosen (70000-byte, binary, BER-looking, non-ASCII variants)",
          "message ids are >= 5,000,000 and never equal the connection's request counter; fields never set are not compared"]


def consts(q, gensets=None):
    s = "CONSTANTS MaxOpts = 2 MaxSets = %d MaxWrites = 2" % (2 if q else 3)
    if gensets is not None:
        s += " GenSets = %d" % gensets
    return s + "\n"


def validate(run, obs, q):
    return run.tlc("RespTrace", consts(q) + "INIT InitT\nNEXT NextT\nINVARIANTS %s\nCHECK_DEADLOCK FALSE\n" % MON,
                   env={"OBS": obs}, workers=1, cont=True, timeout=3000, heap="12g")


def viols_from(res, rows):
    out, seen = [], set()
    for v in res.violations:
        if not v["states"]:
            continue
        l = int(v["states"][-1]["vars"].get("l", "0"))
        if l < 1 or l > len(rows) or (v["name"], l) in seen:
            continue
        seen.add((v["name"], l))
        o = rows[l - 1]
        out.append({"signature": {"monitor": v["name"], "resps": o["resps"]},
                    "what": "%s false for script %s" % (v["name"], json.dumps(o["resps"])[:400]),
                    "replay": {"vector": {"resps": o["resps"]}, "observation": o}})
    return out


def check(run):
    q = run.quick()
    run.build()
    mc = run.tlc("Resp", "CONSTANTS MaxOpts = 1 MaxSets = %d MaxWrites = %d\nSPECIFICATION RSpec\nINVARIANTS TagOK CtlsOnlyWhereSettable\nPROPERTY WritesAppendOnly\nCHECK_DEADLOCK FALSE\n"
                 % ((1, 2) if q else (2, 2)), workers=8, timeout=3000)
    if mc.violations:
        raise vlib.Infra("design model Resp violates %s" % mc.violations[0]["name"])
    vec = run.path("v04.ndjson")
    run.tlc("RespGen", consts(q, 1 if q else 2) + "INIT RInit\nNEXT GNext\nCHECK_DEADLOCK FALSE\n", env={"OUT": vec}, workers=1, timeout=3000, heap="12g")
    obs = run.path("o04.ndjson")
    run.harness(["c04", "-in", vec, "-out", obs, "-par", "8"], timeout=3000)
    rows = vlib.read_ndjson(obs)
    res = validate(run, obs, q)
    viols = viols_from(res, rows)
    # WithWriteTimeout: responses written to a client that reads nothing until the write deadline has expired
    wobs = run.path("o04wt.ndjson")
    run.harness(["c04wt", "-out", wobs], timeout=600)
    wrows = vlib.read_ndjson(wobs)
    wres = run.tlc("RespWtTrace", "INIT InitT\nNEXT NextT\nINVARIANTS AcceptedWritesArrive NothingElseArrives StreamIsFrames InOrder\nCHECK_DEADLOCK FALSE\n",
                   env={"OBS": wobs}, workers=1, cont=True, timeout=600)
    for v in wres.violations:
        if v["states"]:
            l = int(v["states"][-1]["vars"].get("l", "0"))
            if 1 <= l <= len(wrows):
                o = wrows[l - 1]
                viols.append({"signature": {"monitor": v["name"], "round": o["round"]},
                              "what": "%s false with WithWriteTimeout: writes %s, frames received %s" % (v["name"], json.dumps(o["writes"]), json.dumps(o["frames"])),
                              "replay": {"observation": o}})
    bad = [r for r in rows if r.get("err")]
    if bad and not viols:
        raise vlib.Infra("harness could not exercise %d vectors: %s" % (len(bad), bad[0].get("err")))
    cov = {"states": mc.distinct, "transitions": mc.generated, "traces_validated_against_impl": len(rows),
           "samples": [rows[1], rows[-1]], "evaluations": sum(len(r["resps"]) for r in rows),
           "distinct_nontrivial": sum(1 for r in rows if len(r["resps"]) > 1 or r["resps"][0]["opts"] or r["resps"][0]["sets"]),
           "exhaustive": True,
           "rule": "every constructor x every sequence of <= 2 option tokens (supported, unsupported, nil; all values) x every well-typed setter sequence "
                   "(<= %d) as single responses, plus 2- and 3-response scripts (entries, references, intermediate and final responses) written by one "
                   "handler; all vectors distinct; non-trivial = any option or setter, or more than one response" % (1 if q else 2)}
    return vlib.finish(run, "model_checking", cov, viols, ASSUME)


def replay(run, path):
    rp = json.load(open(path))
    run.build()
    vec = run.path("rv.ndjson")
    vlib.write_ndjson(vec, [rp["replay"]["vector"]])
    obs = run.path("ro.ndjson")
    run.harness(["c04", "-in", vec, "-out", obs, "-par", "1"])
    rows = vlib.read_ndjson(obs)
    viols = viols_from(validate(run, obs, False), rows)
    for v in viols:
        print("REPRODUCED property=C04 %s" % v["what"])
    print("replay: %d violation(s)" % len(viols))
    return 1 if viols else 0
