"""C08: see props/lifecycle.py (Gldap.tla, Scen.tla, GldapTrace.tla)."""
from props import lifecycle


def check(run):
    return lifecycle.check(run, "C08", ["general", "pipeline", "stop", "deep", "manyconns", "tls-close", "starttls-close", "timeout", "idle", "long"])


def replay(run, path):
    return lifecycle.replay(run, "C08", path)
