"""C07: see props/lifecycle.py (Gldap.tla, Scen.tla, GldapTrace.tla)."""
from props import lifecycle


def check(run):
    return lifecycle.check(run, "C07", ["panic", "fault", "tls-stall", "long"])


def replay(run, path):
    return lifecycle.replay(run, "C07", path)
