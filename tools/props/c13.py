"""C13: see props/lifecycle.py (Gldap.tla, Scen.tla, GldapTrace.tla)."""
from props import lifecycle


def check(run):
    return lifecycle.check(run, "C13", ["starttls", "starttls2", "starttls-adversarial", "long-starttls"])


def replay(run, path):
    return lifecycle.replay(run, "C13", path)
