"""C06: see props/lifecycle.py (Gldap.tla, Scen.tla, GldapTrace.tla)."""
from props import lifecycle


def check(run):
    return lifecycle.check(run, "C06", ["general", "pipeline", "deep", "blocked-writer", "idle", "long"])


def replay(run, path):
    return lifecycle.replay(run, "C06", path)
