#!/usr/bin/env python3
"""seed_import2.py <ID> <mN> <newN>: round-2 sub-agent output (/tmp/agents2/<ID>/_out/<mN>) -> /verif/seeded/<ID>-<newN>/ after confirming it
in a scratch worktree: the suite passes with the patch, the demonstration fails with it 3/3 and passes without it 3/3."""
import json, os, re, shutil, subprocess, sys
ID, M, NEW = sys.argv[1], sys.argv[2], sys.argv[3]
RACE = len(sys.argv) > 4 and sys.argv[4] == "race"     # the demonstration needs the race detector
src = "%s/%s/_out/%s" % (os.environ.get("AGENTS_DIR", "/tmp/agents2"), ID, M)
dst = "/verif/seeded/%s-%s" % (ID, NEW)
wt = "/tmp/seedchk/%s-%s" % (ID, NEW)
env = dict(os.environ, GOFLAGS="-mod=mod", GOPROXY="off", GOSUMDB="off", GOTOOLCHAIN="local")


def sh(cmd, cwd=None, timeout=900):
    p = subprocess.run(cmd, shell=True, cwd=cwd, env=env, stdout=subprocess.PIPE, stderr=subprocess.STDOUT, text=True, timeout=timeout)
    return p.returncode, p.stdout


demo_src = open(src + "/demo_test.go").read()
pkgm = re.search(r"^package\s+(\w+)", demo_src, re.M)
sub = "testdirectory" if pkgm and pkgm.group(1).startswith("testdirectory") else ""
tests = re.findall(r"^func (Test\w+)\(", demo_src, re.M)
runre = "^(" + "|".join(tests) + ")$"
shutil.rmtree(wt, ignore_errors=True)
os.makedirs("/tmp/seedchk", exist_ok=True)
sh("git -C /repo worktree prune")
rc, out = sh("git -C /repo worktree add -q --detach %s HEAD" % wt)
assert rc == 0, out
res = {}
try:
    rc, out = sh("git apply %s/patch.diff" % src, cwd=wt)
    assert rc == 0, "patch does not apply: " + out
    rc, out = sh("timeout 400 go test -vet=off -count=1 -timeout 300s ./...", cwd=wt)
    if rc != 0 and "address already in use" in out:
        rc, out = sh("timeout 400 go test -vet=off -count=1 -timeout 300s ./...", cwd=wt)
    res["suite_with_patch"] = "pass" if rc == 0 else "FAIL"
    demo = os.path.join(wt, sub, "zz_seed_demo_test.go")
    shutil.copy(src + "/demo_test.go", demo)
    cmd = "%stimeout 300 go test %s-vet=off -count=1 -timeout 200s -run '%s' %s" % ("CGO_ENABLED=1 " if RACE else "", "-race " if RACE else "", runre, "./" + sub if sub else ".")
    fails = 0
    for i in range(3):
        rc, out = sh(cmd, cwd=wt)
        fails += rc != 0
    res["demo_with_patch_failed_runs"] = "%d/3" % fails
    sh("git apply -R %s/patch.diff" % src, cwd=wt)
    passes = 0
    for i in range(3):
        rc, out = sh(cmd, cwd=wt)
        passes += rc == 0
        if rc != 0:
            res["demo_without_patch_output"] = out[-1500:]
    res["demo_without_patch_passed_runs"] = "%d/3" % passes
    res["demo_cmd"] = cmd
    res["confirmed"] = res["suite_with_patch"] == "pass" and fails >= 3 and passes >= 3
finally:
    sh("git -C /repo worktree remove --force %s" % wt)
print(ID, M, "->", NEW, json.dumps(res))
if res.get("confirmed"):
    os.makedirs(dst, exist_ok=True)
    for f in ("patch.diff", "demo_test.go", "NOTES.md"):
        shutil.copy(os.path.join(src, f), os.path.join(dst, f))
    head = subprocess.check_output(["git", "-C", "/repo", "rev-parse", "HEAD"], text=True).strip()
    meta = {"id": "%s-%s" % (ID, NEW), "breaks_property": ID, "round": int(os.environ.get("SEED_ROUND", "2")),
            "origin": "fresh sub-agent given only the property text and a scratch worktree (later round, after the checks had been strengthened)",
            "needs_to_manifest": "see NOTES.md", "demo_placement": sub or "repository root", "confirmation": res, "base_commit": head, "detected_by": None}
    json.dump(meta, open(os.path.join(dst, "meta.json"), "w"), indent=1)
