#!/usr/bin/env python3
"""matrix_report.py: from .work/matrix_results.ndjson (written by tools/matrix.sh; the last run of a seeded change counts)
write seeded/MATRIX.md and fill detected_by in seeded/<id>/meta.json."""
import json, os, glob

ROOT = os.path.dirname(os.path.dirname(os.path.abspath(__file__)))
res = {}
p = os.path.join(ROOT, ".work", "matrix_results.ndjson")
if os.path.exists(p):
    for l in open(p):
        r = json.loads(l)
        res[r["id"]] = r
lines = ["# Seeded changes against the checks", "",
         "Every row is a change produced by a fresh sub-agent that saw only the property text and its own scratch worktree;",
         "it compiles, passes the repository's 306 tests, and its demonstration test fails with it and passes without it (meta.json).",
         "`tools/matrix.sh <id>` applies the patch in a scratch worktree (never in /repo) and runs the property's registered quick check",
         "(`VERIF_REPO=<worktree> tools/check <property>`). Verdict of the last run:", "",
         "| seeded change | property | verdict | seconds | tier | first violation reported |", "|---|---|---|---|---|---|"]
nd = nm = 0
for d in sorted(glob.glob(os.path.join(ROOT, "seeded", "C*-m*"))):
    sid = os.path.basename(d)
    mp = os.path.join(d, "meta.json")
    meta = json.load(open(mp))
    r = res.get(sid)
    if meta.get("status", "").startswith("superseded"):
        lines.append("| %s | %s | superseded | | | %s |" % (sid, meta["breaks_property"], meta["status"][:160].replace("|", "\\|")))
        continue
    if r is None:
        lines.append("| %s | %s | not run | | | |" % (sid, meta["breaks_property"]))
        continue
    det = r["verdict"] == "DETECTED"
    nd += det
    nm += not det
    meta["detected_by"] = ("tools/check %s --tier %s" % (r["property"], r["tier"])) if det else None
    meta["matrix"] = {"verdict": r["verdict"], "seconds": r["seconds"], "first_violation": r["first_violation"], "at": r["at"]}
    json.dump(meta, open(mp, "w"), indent=1)
    lines.append("| %s | %s | %s | %d | %s | %s |" % (sid, r["property"], r["verdict"], r["seconds"], r["tier"], r["first_violation"].replace("|", "\\|")[:200]))
lines += ["", "detected: %d, not detected: %d" % (nd, nm), ""]
open(os.path.join(ROOT, "seeded", "MATRIX.md"), "w").write("\n".join(lines))
print("detected %d, not detected %d" % (nd, nm))
