------------------------------- MODULE ReqGen -------------------------------
(* Vector generators for C01 (well-formed requests of every operation,      *)
(* unsupported operations, bad bind versions) and C02 (complete single-     *)
(* point mutants of canonical request trees).                               *)
EXTENDS Req, Json, IOUtils, SequencesExt
CONSTANT Level       \* 1 = quick, 2 = thorough

\* request controls: what gldap's own Encode produces, plus explicit FALSE criticality and criticality on typed controls
WireCtls == {Wire(c) : c \in Controls}
            \cup {[Wire(c) EXCEPT !.crit = "false"] : c \in {x \in Controls : x.t \in {"string", "managedsa", "paging"} /\ ~x.crit}}
            \cup {[Wire(c) EXCEPT !.crit = "true"] : c \in {x \in Controls : x.t \in {"paging", "behera", "warning", "msnotif"}}}
FewCtls == {Wire(C("paging", "", FALSE, 2, "k1", Unset, Unset, Unset, "")), Wire(C("string", "o1", TRUE, 0, "", Unset, Unset, Unset, "k2")),
            Wire(C("managedsa", "", TRUE, 0, "", Unset, Unset, Unset, "")), Wire(C("behera", "", FALSE, 0, "", Unset, Unset, Unset, "")),
            [Wire(C("string", "o2", FALSE, 0, "", Unset, Unset, Unset, "")) EXCEPT !.crit = "false"]}
CtlListsQ == {<<>>} \cup {<<w>> : w \in WireCtls} \cup {<<a, b>> : a \in FewCtls, b \in FewCtls}
CtlListsT == CtlListsQ \cup {<<a, b>> : a \in WireCtls, b \in FewCtls} \cup {<<a, b, c>> : a \in FewCtls, b \in FewCtls, c \in FewCtls}
CtlLists == IF Level = 1 THEN CtlListsQ ELSE CtlListsT

ChangeLists == { <<>>, <<Chg("0", "s1", <<"s2">>)>>, <<Chg("1", "s1", <<>>)>>,
                 <<Chg("2", "s2", <<"s1", "s3">>), Chg("3", "s1", <<"s0">>)>>, <<Chg("0", "s0", <<"s1", "s1">>)>> }
AttrLists == { <<>>, <<AV("s1", <<>>)>>, <<AV("s1", <<"s2", "s3">>), AV("s2", <<"s0">>)>>, <<AV("s3", <<"s1">>), AV("s3", <<"s2">>)>> }
ReqAttrs == { <<>>, <<"s1">>, <<"s1", "s2", "s0">>, <<"s3", "s3">> }

WellFormed ==
     {Bind(id, "3", dn, pw, <<>>) : id \in Ids, dn \in Strs4, pw \in Strs4}
  \cup {Bind("i1", "3", "s1", "s2", cs) : cs \in CtlLists}
  \cup {Search(id, b, sc, de, "i1", "i2", ty, "f1", <<>>, <<>>) : id \in Ids, b \in Strs4, sc \in {"0", "1", "2"}, de \in {"0", "1", "2", "3"}, ty \in {"true", "false"}}
  \cup {Search("i2", "s1", "2", "0", sz, tm, "false", f, as, <<>>) : sz \in Ids, tm \in Ids, f \in Filters, as \in ReqAttrs}
  \cup {Search("i3", "s2", "1", "3", "i0", "i3", "true", "f2", <<"s1">>, cs) : cs \in CtlLists}
  \cup {Modify(id, dn, chs, <<>>) : id \in Ids, dn \in Strs4, chs \in ChangeLists}
  \cup {Modify("i1", "s1", <<Chg("2", "s2", <<"s1", "s3">>)>>, cs) : cs \in CtlLists}
  \cup {AddR(id, dn, as, <<>>) : id \in Ids, dn \in Strs4, as \in AttrLists}
  \cup {AddR("i2", "s3", <<AV("s1", <<"s2">>)>>, cs) : cs \in CtlLists}
  \cup {Delete(id, dn, <<>>) : id \in Ids, dn \in Strs4}
  \cup {Delete("i0", "s1", cs) : cs \in CtlLists}
  \cup {Extended(id, n) : id \in Ids, n \in {"n1", "n2"}}
  \cup {Unbind(id) : id \in Ids}
NotSupported ==
     {Unsupported(op, id) : op \in {"compare", "moddn", "abandon", "app20", "app30", "app256", "app258", "app512"}, id \in {"i0", "i2"}}
  \cup {Bind(id, v, "s1", "s2", <<>>) : id \in {"i1", "i3"}, v \in {"0", "2", "4", "i3"}}
Requests == WellFormed \cup NotSupported

\* design level: C01 on every generated request
C01Design == \A r \in Requests : RoundTripReq(r)

\* ---- C02: canonical trees and their complete single-point mutants
Canon == { Bind("i1", "3", "s1", "s2", <<Wire(C("paging", "", FALSE, 2, "k1", Unset, Unset, Unset, ""))>>),
           Bind("i1", "3", "s1", "s2", <<Wire(C("behera", "", FALSE, 0, "", 1, Unset, Unset, ""))>>),
           Bind("i1", "3", "s1", "s2", <<Wire(C("behera", "", FALSE, 0, "", Unset, Unset, 3, ""))>>),
           Search("i2", "s1", "2", "0", "i1", "i2", "false", "f8", <<"s1", "s2">>, <<[Wire(C("string", "o1", TRUE, 0, "", Unset, Unset, Unset, "k1")) EXCEPT !.crit = "true"]>>),
           Search("i2", "s1", "2", "0", "i1", "i2", "false", "f1", <<>>, <<Wire(C("warning", "", FALSE, 0, "", Unset, 1, Unset, ""))>>),
           Modify("i1", "s1", <<Chg("2", "s2", <<"s1", "s3">>), Chg("0", "s1", <<"s2">>)>>, <<Wire(C("managedsa", "", TRUE, 0, "", Unset, Unset, Unset, ""))>>),
           AddR("i2", "s3", <<AV("s1", <<"s2", "s3">>), AV("s2", <<"s0">>)>>, <<Wire(C("paging", "", FALSE, 0, "", Unset, Unset, Unset, ""))>>),
           Delete("i0", "s1", <<Wire(C("mustchange", "", FALSE, 0, "", Unset, Unset, Unset, "")), Wire(C("msnotif", "", FALSE, 0, "", Unset, Unset, Unset, ""))>>),
           Extended("i3", "n1"), Unbind("i1") }
MutVec(r) == {[kind |-> "mutant", of |-> r.op, tree |-> t, pred |-> DecodeReq(t).k] : t \in Mutants1(EncodeRequest(r))}
Mutants == UNION {MutVec(r) : r \in Canon}
C02Design == \A r \in Canon : \A t \in Mutants1(EncodeRequest(r)) : TotalOn(t)

ReqVecs == {[kind |-> "request", r |-> r, tree |-> EncodeRequest(r)] : r \in Requests}
GNext == UNCHANGED cstep
=============================================================================
