----------------------------- MODULE Dir20Trace -----------------------------
(* Trace validation for C20/C19: the harness replays operation sequences on  *)
(* a real test directory through a real LDAP client and logs, per operation, *)
(* the arguments, the result code, and what a search for every pool DN       *)
(* returns afterwards.  Each trace starts at a "reset" line (the harness     *)
(* installs InitUsers/InitGroups with the Set* methods); the trace actions   *)
(* are the Directory actions with the logged arguments.                      *)
EXTENDS Directory, Json, IOUtils, SequencesExt

T == ndJsonDeserialize(IOEnv.OBS)
InitUsers  == << Entry("u1", <<Attr("a1", <<"v1">>), Attr("a2", <<"v2">>), Attr("password", <<"p">>)>>),
                 Entry("u2", <<Attr("a1", <<"v1">>)>>),
                 Entry("ub", <<Attr("password", <<"pb">>)>>) >>
InitGroups == << Entry("g1", <<Attr("member", <<"u1">>)>>) >>
UserPool  == {"u1", "u2", "n1", "n2"}

VARIABLE l          \* index of the last consumed line
tvars == <<users, groups, allowAnon, reply, tokenGroups, l>>
TG1 == [s \in {"S1"} |-> <<Entry("t1", <<Attr("a1", <<"v1">>)>>), Entry("t2", <<>>)>>]

InitT == /\ l \in {i \in 1..Len(T) : T[i].op = "reset"}
         /\ DirInit(InitUsers, InitGroups)
IsOp(o) == l < Len(T) /\ T[l + 1].op = o /\ l' = l + 1
e == T[l + 1]
NextT ==
  \/ IsOp("add") /\ Add(e.dn, e.attrs)
  \/ IsOp("modify") /\ Modify(e.dn, e.chs)
  \/ IsOp("delete") /\ Delete(e.dn)
  \/ IsOp("setusers") /\ SetUsers(IF e.dn = "init" THEN InitUsers ELSE <<>>)
  \/ IsOp("setgroups") /\ SetGroups(<<>>)
  \/ IsOp("setanon") /\ SetAnon(e.b)
  \/ IsOp("settokengroups") /\ SetTokenGroups(IF e.dn = "tg1" THEN TG1 ELSE <<>>)
  \/ IsOp("bind") /\ Bind(e.dn, e.pw)
  \/ IsOp("bgbind") /\ UNCHANGED dvars          \* summary line of the background binder (see BackgroundBindsConform)

Bad(what, exp, got) == Print(<<"MISMATCH", what, l, exp, got>>, FALSE)
cur == T[l]
\* the reply the client received is the model's
ReplyConforms == cur.op \in {"reset", "bind", "bgbind"} \/ cur.code = reply.code \/ Bad("code", reply, cur.code)
\* what a later search returns is what the model holds (C20: added entries are found with their attributes,
\* deleted ones are gone, modifications are reflected)
\* attributes are compared as a set of (name, bag of values): the property does not fix an order
\* and a value counts as the same whether plain or in the BER-wrapped form (C20 / C01 allow either)
BagOf(s0) == LET s == [i \in 1..Len(s0) |-> Unwrap(s0[i])] IN
             [v \in {s[i] : i \in 1..Len(s)} |-> Cardinality({i \in 1..Len(s) : s[i] = v})]
Canon(es) == [i \in 1..Len(es) |-> [dn |-> es[i].dn,
                                     attrs |-> {[name |-> es[i].attrs[k].name, vals |-> BagOf(es[i].attrs[k].vals)] : k \in 1..Len(es[i].attrs)}]]
SearchConforms ==
  cur.op \in {"reset", "bgbind"} \/
  /\ \A dn \in UserPool : Canon(cur.found[dn]) = Canon(SearchUsers(dn)) \/ Bad(<<"search users", dn>>, SearchUsers(dn), cur.found[dn])
  /\ Canon(cur.found["g1"]) = Canon(SearchGroups("g1")) \/ Bad(<<"search groups", "g1">>, SearchGroups("g1"), cur.found["g1"])
  /\ cur.found["mz"] = <<>> \/ Bad(<<"search", "mz">>, <<>>, cur.found["mz"])
\* the result code of every search: success exactly when something was found
SearchCodesConform ==
  cur.op \in {"reset", "bgbind"} \/ \A dn \in DOMAIN cur.found :
     cur.codes[dn] = SearchCode(cur.found[dn]) \/ Bad(<<"search code", dn>>, SearchCode(cur.found[dn]), cur.codes[dn])
\* the same entries through the route without base DN (base = the entry's DN), whatever token groups are configured
GenericSearchConforms ==
  cur.op \in {"reset", "bgbind"} \/ \A dn \in DOMAIN cur.gen :
     \/ /\ Canon(cur.gen[dn]) = Canon(SearchGeneric(dn))
        /\ cur.gcodes[dn] = SearchCode(SearchGeneric(dn))
     \/ Bad(<<"generic search", dn>>, SearchGeneric(dn), <<cur.gen[dn], cur.gcodes[dn]>>)
\* token groups by SID: the configured entries (S1), nothing for an unknown SID (S9)
TokenGroupsConform ==
  cur.op \in {"reset", "bgbind"} \/ \A sid \in DOMAIN cur.sid :
     \/ /\ Canon(cur.sid[sid]) = Canon(SearchSID(sid).found)
        /\ cur.sidcodes[sid] = SearchSID(sid).code
     \/ Bad(<<"token groups", sid>>, SearchSID(sid), <<cur.sid[sid], cur.sidcodes[sid]>>)
\* C19 on histories: the bind result is the model's for the current users
BindConforms == cur.op # "bind" \/ cur.code = BindResult(users, allowAnon, cur.dn, cur.pw) \/ Bad("bind", reply, cur.code)
\* C19 under concurrency: while the operations above ran, another client kept binding as the bystander "ub" (present from
\* every SetUsers(init) to the next SetUsers(none)); each bind whose whole duration lay inside one such period had the
\* outcome that period demands (code = number of binds that had another outcome)
BackgroundBindsConform == cur.op # "bgbind" \/ cur.code = 0 \/ Bad("background binds", 0, cur.code)
\* every line of every trace is consumed (deterministic trace spec: a state whose next line is not a
\* reset must have a successor)
NotStuck == (l < Len(T) /\ T[l + 1].op # "reset") => ENABLED NextT
=============================================================================
