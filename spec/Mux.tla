------------------------------- MODULE Mux -------------------------------
(* Route table and first-match dispatch of gldap (mux.go, route.go,        *)
(* request.go newRequest).  Property C03.                                  *)
(*                                                                         *)
(* A Mux is built by registration calls (one action each, as in mux.go:    *)
(* every registration method appends under Mux.mu; DefaultRoute and Unbind *)
(* overwrite a single slot).  Dispatch is the linear scan of Mux.serve.    *)
EXTENDS Naturals, Sequences, FiniteSets, TLC

CONSTANTS MaxRoutes,   \* bound on len(Mux.routes) in the exhaustive config
          MaxGen,      \* bound on re-registrations of default / unbind route
          Alphabet     \* "full" | "reduced" : route alphabet used by Register

--------------------------------------------------------------------------
(* Symbolic alphabets.  "dA"/"da" (and "fA"/"fa") differ only by letter    *)
(* case; the harness maps each symbol to concrete strings with that        *)
(* relation.  "" is "criterion not given" for routes and the empty base DN *)
(* for requests.                                                           *)
DNs   == {"dA", "da", "dB"}
Flts  == {"fA", "fa", "fB"}
Names == {"n1", "n2", "tls"}          \* "tls" is the StartTLS OID (dispatched inline by conn.go)
Fold(s) == CASE s = "dA" -> "da" [] s = "fA" -> "fa" [] OTHER -> s   \* strings.EqualFold(a,b) <=> Fold(a) = Fold(b)

Ops == {"bind", "search", "extended", "modify", "add", "delete"}

Rt(op, dn, f, sc, n) == [op |-> op, basedn |-> dn, filter |-> f, scope |-> sc, name |-> n]

SearchRoutes == {Rt("search", dn, f, sc, "") : dn \in DNs \cup {""}, f \in Flts \cup {""}, sc \in 0..2}
ExtRoutes    == {Rt("extended", "", "", 0, n) : n \in Names}
PlainRoutes  == {Rt(op, "", "", 0, "") : op \in {"bind", "modify", "add", "delete"}}
RoutesFull   == SearchRoutes \cup ExtRoutes \cup PlainRoutes
\* reduced alphabet: enough to have overlapping, case-variant and scope-restricted routes
RoutesReduced ==
  {Rt("search", dn, f, sc, "") : dn \in {"", "dA", "da"}, f \in {"", "fA"}, sc \in {0, 2}}
  \cup {Rt("search", "dB", "fB", 1, "")}
  \cup {Rt("extended", "", "", 0, n) : n \in {"n1", "tls"}} \cup {Rt("bind", "", "", 0, ""), Rt("delete", "", "", 0, "")}
Routes == IF Alphabet = "full" THEN RoutesFull ELSE RoutesReduced

\* requests: same shape as routes; a search request always has a filter, and an
\* extended request may carry a name nobody registered ("n3")
Requests ==
  {Rt("search", dn, f, sc, "") : dn \in DNs \cup {""}, f \in Flts, sc \in 0..2}
  \cup {Rt("extended", "", "", 0, n) : n \in Names \cup {"n3"}}
  \cup {Rt(op, "", "", 0, "") : op \in {"bind", "modify", "add", "delete"}}

--------------------------------------------------------------------------
(* route.go: the per-kind match predicates *)
Matches(rt, rq) ==
  /\ rt.op = rq.op
  /\ CASE rt.op = "search" ->
            /\ (rt.basedn = "" \/ Fold(rt.basedn) = Fold(rq.basedn))
            /\ (rt.filter = "" \/ Fold(rt.filter) = Fold(rq.filter))
            /\ (rt.scope = 0 \/ rt.scope = rq.scope)
       [] rt.op = "extended" -> rt.name = rq.name
       [] OTHER -> TRUE

\* the final response type that belongs to an operation (RFC 4511)
RespTag(op) == CASE op = "bind" -> 1 [] op = "search" -> 5 [] op = "modify" -> 7
                 [] op = "add" -> 9 [] op = "delete" -> 11 [] op = "extended" -> 24
UnwillingToPerform == 53

\* mux.go (*Mux).serve: linear scan in registration order, then default, then refusal
RECURSIVE Scan(_, _, _)
Scan(tbl, i, rq) == IF i > Len(tbl) THEN 0
                    ELSE IF Matches(tbl[i], rq) THEN i ELSE Scan(tbl, i + 1, rq)

Serve(tbl, d, rq) ==
  LET i == Scan(tbl, 1, rq) IN
  IF i > 0 THEN [k |-> "route", idx |-> i, gen |-> 0, tag |-> 0, code |-> 0]
  ELSE IF d > 0 THEN [k |-> "default", idx |-> 0, gen |-> d, tag |-> 0, code |-> 0]
  ELSE [k |-> "refuse", idx |-> 0, gen |-> 0, tag |-> RespTag(rq.op), code |-> UnwillingToPerform]

--------------------------------------------------------------------------
(* Registration state machine *)
VARIABLES routes,   \* Seq(Routes): Mux.routes
          def,      \* 0 = no default route, g > 0: the g-th registered default handler is current
          unb       \* same for the unbind route
mvars == <<routes, def, unb>>

MuxInit == routes = <<>> /\ def = 0 /\ unb = 0
Register(r)     == Len(routes) < MaxRoutes /\ routes' = Append(routes, r) /\ UNCHANGED <<def, unb>>
RegisterDefault == def < MaxGen /\ def' = def + 1 /\ UNCHANGED <<routes, unb>>
RegisterUnbind  == unb < MaxGen /\ unb' = unb + 1 /\ UNCHANGED <<routes, def>>
MuxNext == (\E r \in Routes : Register(r)) \/ RegisterDefault \/ RegisterUnbind
MuxSpec == MuxInit /\ [][MuxNext]_mvars

--------------------------------------------------------------------------
(* C03, stated declaratively over every request in every reachable table *)
Matching(tbl, rq) == {i \in 1..Len(tbl) : Matches(tbl[i], rq)}

FirstMatchWins ==
  \A rq \in Requests : LET s == Serve(routes, def, rq) IN
     Matching(routes, rq) # {} =>
        /\ s.k = "route" /\ s.idx \in Matching(routes, rq)
        /\ \A j \in Matching(routes, rq) : s.idx <= j
DefaultOnlyIfNoMatch ==
  \A rq \in Requests : LET s == Serve(routes, def, rq) IN
     s.k = "default" <=> (Matching(routes, rq) = {} /\ def > 0)
RefusalHasOperationsResponseTag ==
  \A rq \in Requests : LET s == Serve(routes, def, rq) IN
     (Matching(routes, rq) = {} /\ def = 0) =>
        s.k = "refuse" /\ s.code = 53 /\ s.tag = RespTag(rq.op) /\ s.tag \in {1, 5, 7, 9, 11, 24}
\* the set of handlers that run for a request is a singleton (or the built-in refusal)
HandlersFor(tbl, d, rq) ==
  LET s == Serve(tbl, d, rq) IN
  CASE s.k = "route" -> {<<"r", s.idx>>} [] s.k = "default" -> {<<"d", s.gen>>} [] OTHER -> {}
ExactlyOne ==
  \A rq \in Requests : LET s == Serve(routes, def, rq) IN
     Cardinality(HandlersFor(routes, def, rq)) = (IF s.k = "refuse" THEN 0 ELSE 1)
\* the four properties evaluated with one pass over the requests (what the configs check)
C03Design ==
  \A rq \in Requests :
    LET s == Serve(routes, def, rq)  m == Matching(routes, rq) IN
    /\ m # {} => (s.k = "route" /\ s.idx \in m /\ \A j \in m : s.idx <= j)
    /\ (s.k = "default") <=> (m = {} /\ def > 0)
    /\ (m = {} /\ def = 0) => (s.k = "refuse" /\ s.code = 53 /\ s.tag = RespTag(rq.op) /\ s.tag \in {1, 5, 7, 9, 11, 24})
    /\ Cardinality(HandlersFor(routes, def, rq)) = (IF s.k = "refuse" THEN 0 ELSE 1)
TypeOK == routes \in Seq(Routes) /\ Len(routes) <= MaxRoutes /\ def \in 0..MaxGen /\ unb \in 0..MaxGen
==========================================================================
