-------------------------------- MODULE Ctl --------------------------------
(* LDAP controls in gldap (control.go, control_options.go).  Property C14:  *)
(* every control value encodes (Encode) to a packet from which both gldap's *)
(* request decoder (decodeControl) and an independent client recover the    *)
(* same control; the Behera constructor validates its arguments.            *)
EXTENDS Integers, Sequences, FiniteSets, TLC

Unset == -1
\* integers are symbols: 0 and 1 are themselves, 2 stands for the largest value of the field
\* (2^32-1 for page sizes, 2^31-1 for grace / expire); strings "" / "k1" / "k2" are concretised per seed
Ints == {0, 1, 2}
Strs == {"", "k1", "k2"}
OIDs == {"o1", "o2"}                          \* OIDs not known to gldap

C(t, oid, crit, size, cookie, grace, expire, err, val) ==
  [t |-> t, oid |-> oid, crit |-> crit, size |-> size, cookie |-> cookie, grace |-> grace, expire |-> expire, error |-> err, val |-> val]
Plain(t) == C(t, "", FALSE, 0, "", Unset, Unset, Unset, "")

\* every control value that can be built through the exported API
Controls ==
     {C("paging", "", FALSE, s, k, Unset, Unset, Unset, "") : s \in Ints, k \in Strs}
  \cup {C("behera", "", FALSE, 0, "", g, Unset, Unset, "") : g \in Ints}
  \cup {C("behera", "", FALSE, 0, "", Unset, e, Unset, "") : e \in Ints}
  \cup {C("behera", "", FALSE, 0, "", Unset, Unset, c, "") : c \in 0..8}
  \cup {Plain("behera")}
  \cup {C("warning", "", FALSE, 0, "", Unset, e, Unset, "") : e \in Ints}
  \cup {Plain("mustchange"), Plain("msnotif"), Plain("msshowdel"), Plain("msttl")}
  \cup {C("managedsa", "", b, 0, "", Unset, Unset, Unset, "") : b \in BOOLEAN}
  \cup {C("string", o, b, 0, "", Unset, Unset, Unset, v) : o \in OIDs, b \in BOOLEAN, v \in Strs}

--------------------------------------------------------------------------
(* Encode(): the abstract wire form [oid, crit: "absent"|"true", val]      *)
NoVal == [k |-> "none", a |-> 0, b |-> ""]
Wire(c) ==
  [t |-> c.t, oid |-> c.oid,
   crit |-> IF c.t \in {"managedsa", "string"} /\ c.crit THEN "true" ELSE "absent",     \* only ever encoded when true
   val |-> CASE c.t = "paging" -> [k |-> "paging", a |-> c.size, b |-> c.cookie]
             [] c.t = "behera" -> (IF c.grace >= 0 THEN [k |-> "grace", a |-> c.grace, b |-> ""]
                                   ELSE IF c.expire >= 0 THEN [k |-> "expire", a |-> c.expire, b |-> ""]
                                   ELSE IF c.error >= 0 THEN [k |-> "error", a |-> c.error, b |-> ""] ELSE NoVal)
             [] c.t = "warning" -> [k |-> "decimal", a |-> c.expire, b |-> ""]
             [] c.t = "string" -> (IF c.val # "" THEN [k |-> "str", a |-> 0, b |-> c.val] ELSE NoVal)
             [] OTHER -> NoVal]

\* decodeControl (request direction) and a conforming client (response direction) read the wire form back
Decode(w) ==
  CASE w.t = "paging" -> (IF w.val.k = "paging" THEN C("paging", "", FALSE, w.val.a, w.val.b, Unset, Unset, Unset, "") ELSE Plain("paging"))
    [] w.t = "behera" -> C("behera", "", FALSE, 0, "",
                           IF w.val.k = "grace" THEN w.val.a ELSE Unset,
                           IF w.val.k = "expire" THEN w.val.a ELSE Unset,
                           IF w.val.k = "error" THEN w.val.a ELSE Unset, "")
    [] w.t = "warning" -> C("warning", "", FALSE, 0, "", Unset, IF w.val.k = "decimal" THEN w.val.a ELSE Unset, Unset, "")
    [] w.t = "managedsa" -> C("managedsa", "", w.crit = "true", 0, "", Unset, Unset, Unset, "")
    [] w.t = "string" -> C("string", w.oid, w.crit = "true", 0, "", Unset, Unset, Unset, IF w.val.k = "str" THEN w.val.b ELSE "")
    [] OTHER -> Plain(w.t)

\* C14 (design level): encode then decode is the identity on every constructible control
RoundTrip == \A c \in Controls : Decode(Wire(c)) = c
\* lists keep their order and length
ListRoundTrip(cs) == [i \in 1..Len(cs) |-> Decode(Wire(cs[i]))] = cs

--------------------------------------------------------------------------
(* NewControlBeheraPasswordPolicy(WithGraceAuthNsRemaining, WithSecondsBeforeExpiration, WithErrorCode) *)
BeheraArgs == [g : {Unset, 0, 2}, e : {Unset, 0, 2}, c : {Unset, 0, 8, 9, 255, 256, 264, 65539, 1000000, 2000000, 3000000}]   \* 1000000 stands for 2^31-1, 2000000 for 2^64-2, 3000000 for 2^64-1 (WithErrorCode takes a uint)
BeheraOK(a) == Cardinality({f \in {"g", "e", "c"} : a[f] # Unset}) <= 1 /\ (a.c = Unset \/ a.c \in 0..8)
BeheraResult(a) == IF BeheraOK(a) THEN [ok |-> TRUE, grace |-> a.g, expire |-> a.e, error |-> a.c]
                   ELSE [ok |-> FALSE, grace |-> Unset, expire |-> Unset, error |-> Unset]
\* never more than one of the three, never an error code above 8
BeheraDesign == \A a \in BeheraArgs : LET r == BeheraResult(a) IN
                   r.ok => Cardinality({f \in {"grace", "expire", "error"} : r[f] # Unset}) <= 1 /\ r.error <= 8

VARIABLE cstep
CInit == cstep = 0
CNext == cstep < 1 /\ cstep' = cstep + 1
CtlDesign == RoundTrip /\ BeheraDesign
==========================================================================
