------------------------------ MODULE CtlTrace ------------------------------
(* C14 conformance: each line of IOEnv.OBS is one list of controls built    *)
(* through gldap's API and (a) sent, in gldap's own encoding, as request    *)
(* controls to a real server whose handler reports what it decoded, (b) set *)
(* on a Bind and on a SearchDone response and parsed by the harness's       *)
(* strict parser and by go-ldap's DecodeControl - or one call of the Behera *)
(* constructor.                                                             *)
EXTENDS Ctl, Json, IOUtils
Obs == ndJsonDeserialize(IOEnv.OBS)
VARIABLE l
InitT == l \in 1..Len(Obs) /\ cstep = 0
NextT == UNCHANGED <<l, cstep>>
o == Obs[l]
Bad(what, exp, got) == Print(<<"MISMATCH", what, l, exp, got>>, FALSE)
Exp(cs) == [i \in 1..Len(cs) |-> Decode(Wire(cs[i]))]
Same(what, got) == got = Exp(o.cs) \/ Bad(what, Exp(o.cs), got)
RequestDirection == o.k # "list" \/ (o.req_ok /\ Same("request decoder", o.req)) \/ Bad("request rejected", o.cs, o.req_err)
BindResponseStrict == o.k # "list" \/ Same("bind response / strict parser", o.bind_strict)
DoneResponseStrict == o.k # "list" \/ Same("search done response / strict parser", o.done_strict)
BindResponseGoLdap == o.k # "list" \/ ~o.goldap_ok \/ Same("bind response / go-ldap", o.bind_goldap)
DoneResponseGoLdap == o.k # "list" \/ ~o.goldap_ok \/ Same("search done response / go-ldap", o.done_goldap)
BeheraConforms == o.k # "behera" \/ o.res = BeheraResult(o.a) \/ Bad("behera constructor", BeheraResult(o.a), o.res)
=============================================================================
