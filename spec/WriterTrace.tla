----------------------------- MODULE WriterTrace -----------------------------
(* C05 trace validation.  A trace (reset .. end) is one round of N handlers   *)
(* writing frames concurrently on one real connection: "hwrite" lines are the *)
(* Write calls with their result, "recv" lines the frames the client's strict *)
(* incremental parser extracted from the byte stream (each frame carries its  *)
(* writer, sequence number, length and checksum), "garbage" anything that is  *)
(* not a whole, well-formed frame.  The observed frame sequence must be the   *)
(* wire of some behaviour of Writer.tla with the lock: whole frames only,     *)
(* exactly one per successful Write, each writer's frames in its own order.   *)
EXTENDS Naturals, Sequences, FiniteSets, TLC, Json, IOUtils
T == ndJsonDeserialize(IOEnv.OBS)
VARIABLES l, okd, got, last, bad
InitT == l \in {i \in 1..Len(T) : T[i].ev = "reset"} /\ okd = {} /\ got = {} /\ last = <<>> /\ bad = ""
e == T[l + 1]
LastOf(w) == IF w \in DOMAIN last THEN last[w] ELSE 0
Check(ev) ==
  CASE ev.ev = "garbage" -> "C05_StreamIsWholeMessages"
    [] ev.ev = "recv" /\ <<ev.c, ev.i>> \in got -> "C05_NoFrameTwice"
    [] ev.ev = "recv" /\ ev.i <= LastOf(ev.c) -> "C05_PerWriterOrder"
    [] ev.ev = "recv" /\ ev.val # "" -> "C05_FrameIntact"          \* length / checksum mismatch: merged or torn content
    [] ev.ev = "gate_leak" -> "C05_NothingOfAnotherWriterInsideTheCriticalSection"
    [] OTHER -> ""
NextT ==
  /\ l < Len(T) /\ e.ev # "reset" /\ T[l].ev # "end" /\ l' = l + 1
  /\ bad' = Check(e)
  /\ okd' = IF e.ev = "hwrite" /\ e.val = "ok" THEN okd \cup {<<e.c, e.i>>} ELSE okd
  /\ got' = IF e.ev = "recv" THEN got \cup {<<e.c, e.i>>} ELSE got
  /\ last' = IF e.ev = "recv" THEN (IF e.c \in DOMAIN last THEN [last EXCEPT ![e.c] = e.i] ELSE last @@ (e.c :> e.i)) ELSE last
OrderMonitors == bad = "" \/ Print(<<"MONITOR", bad, l, T[l]>>, FALSE)
AtEnd == T[l].ev = "end"
\* exactly one frame per successful Write: none lost, none invented
NoLoss == ~AtEnd \/ T[l].val = "stopped" \/ okd \subseteq got \/ Print(<<"LOST", l, okd \ got>>, FALSE)
NoInvention == ~AtEnd \/ got \subseteq okd \/ T[l].val \in {"writes-failed", "stopped"} \/ Print(<<"INVENTED", l, got \ okd>>, FALSE)
NotStuck == (l < Len(T) /\ T[l + 1].ev # "reset" /\ T[l].ev # "end") => ENABLED NextT
=============================================================================
