------------------------------- MODULE TlsRule -------------------------------
(* Which clients a TLS configuration lets through (C18).  mode: "server"     *)
(* (server authentication only) | "mtls" (client certificate required and    *)
(* verified against the configured CA).  Client kinds: "valid", "nocert",    *)
(* "wrongca" (certificate from another CA), "plaintext", "garbage", "silent" *)
HandshakeOKFor(mode, kind) == kind = "valid" \/ (mode = "server" /\ kind \in {"nocert", "wrongca"})
==============================================================================
