------------------------------- MODULE TlsRule -------------------------------
(* Which clients a TLS configuration lets through (C18).  mode: "server"     *)
(* (server authentication only) | "mtls" (client certificate required and    *)
(* verified against the configured CA).  Client kinds: "valid", "nocert",    *)
(* "wrongca" / "earlierca" (certificate from another CA / from a CA the same *)
(* package created earlier), "plaintext", "garbage", "silent"                *)
\* "anycert": a client certificate is required but not verified (tls.RequireAnyClientCert)
HandshakeOKFor(mode, kind) == \/ kind = "valid"
                              \/ (mode = "server" /\ kind \in {"nocert", "wrongca", "earlierca"})
                              \/ (mode = "anycert" /\ kind \in {"wrongca", "earlierca"})
==============================================================================
