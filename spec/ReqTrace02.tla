----------------------------- MODULE ReqTrace02 -----------------------------
(* C02 conformance: each line of IOEnv.OBS is one frame (a mutant of a      *)
(* canonical request tree, or a byte-level corruption) sent to a real       *)
(* server, with what happened without (a) and with (b) panic recovery.      *)
EXTENDS Req, Json, IOUtils
Obs == ndJsonDeserialize(IOEnv.OBS)
VARIABLE l
InitT == l \in 1..Len(Obs) /\ cstep = 0
NextT == UNCHANGED <<l, cstep>>
o == Obs[l]
Kinds7 == {"bind", "search", "modify", "add", "delete", "extended", "unbind"}
\* the only outcomes request decoding has: delivered as one of the seven kinds, or rejected
OutcomeAlphabet == /\ (o.a = "rejected" \/ (o.a = "delivered" /\ o.ka \in Kinds7))
                   /\ (o.b = "rejected" \/ (o.b = "delivered" /\ o.kb \in Kinds7))
\* panic recovery does not change what decoding does
SameWithRecovery == o.a = o.b /\ o.ka = o.kb
=============================================================================
