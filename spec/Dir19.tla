------------------------------- MODULE Dir19 -------------------------------
(* C19 configuration of Directory.tla: user sets, binds, the exhaustive     *)
(* design check, the vector generator and the conformance monitor.          *)
EXTENDS Directory, Json, IOUtils, SequencesExt

CONSTANT MaxUsers            \* user sets of up to MaxUsers entries

\* "d1" is a proper prefix of "d1x"; "D1" differs from "d1" only by letter case
UserDNs == {"d1", "d1x", "D1"}
BindDNs == UserDNs \cup {"", "dz"}
Pws     == {"", "p", "q"}             \* concretely "q" extends "p" (prefix-related passwords)
PwAttrs == { <<>>,                                   \* no password attribute
             <<Attr("password", <<>>)>>,             \* attribute without values
             <<Attr("password", <<"">>)>>, <<Attr("password", <<"p">>)>>,
             <<Attr("password", <<"p", "q">>)>>, <<Attr("password", <<"q", "p">>)>> }
\* every entry starts with a decoy attribute holding "p", so "first value of the first attribute" is wrong
Entries  == {Entry(dn, <<Attr("a1", <<"p">>)>> \o pa) : dn \in UserDNs, pa \in PwAttrs}
UserSets == UNION {[1..n -> Entries] : n \in 0..MaxUsers}
Binds    == {[dn |-> dn, pw |-> pw] : dn \in BindDNs, pw \in Pws}

\* ---- design check: every directory state reachable through the Set* methods, every bind
Init19 == DirInit(<<>>, <<>>)
Next19 == (\E us \in UserSets : SetUsers(us)) \/ (\E b \in BOOLEAN : SetAnon(b))
Spec19 == Init19 /\ [][Next19]_dvars
C19Inv == \A b \in Binds : C19Holds(users, allowAnon, b.dn, b.pw)

\* ---- generator
Vectors == {[users |-> us, anon |-> a] : us \in UserSets, a \in BOOLEAN}
GenOK == ndJsonSerialize(IOEnv.OUT, <<[kind |-> "binds", binds |-> SetToSeq(Binds)]>> \o SetToSeq(Vectors))

=============================================================================
