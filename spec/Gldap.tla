------------------------------- MODULE Gldap -------------------------------
(* Server, connection and handler life cycle of gldap (server.go Run / Stop *)
(* / Ready, conn.go serveRequests, the per-connection teardown, the         *)
(* per-request handler goroutines).  One action per critical section /      *)
(* blocking point of the Go code; the action boundary is where the code     *)
(* takes or releases a lock, blocks, spawns a goroutine or makes something  *)
(* visible.  Properties C06 C07 C08 C09 C10 C11 C12 C17 (and the            *)
(* dispatch part of C03 / C13).                                             *)
(*                                                                          *)
(* Variant constants name the orderings the code could have (and, before    *)
(* the repairs listed in DESIGN.md, did have); the shipped configurations   *)
(* set them to what the code does now, the anti-vacuity configurations flip *)
(* one at a time and TLC must find the corresponding counterexample.        *)
EXTENDS Naturals, Sequences, FiniteSets, TLC, TlsRule

CONSTANTS Conns,            \* client connections (model values)
          MaxReq,           \* frames a client sends per connection
          Stoppers,         \* concurrent callers of Stop
          FrameKinds,       \* subset of {"op", "unbind", "starttls", "bad"}
          DoneLast,         \* TRUE: connWg.Done() is the last teardown step (server.go deferred func)
          RegisterLocked,   \* TRUE: accepted conns are registered under Server.mu with a ctx re-check
          CloseOnCtx,       \* TRUE: Run closes its listener when it sees the cancelled context
          WakeOnCancel,     \* TRUE: cancellation interrupts blocked reads and writes (deadline watcher)
          HandlerRecover,   \* TRUE: per-request goroutines recover panics
          ReadyOnlyIfListening, \* TRUE: listenerReady is set only when net.Listen succeeded
          ListenFails,      \* TRUE: net.Listen fails (port in use, malformed address) in this configuration
          AcceptErrorsFatal,\* TRUE: a temporary Accept error (EMFILE) makes Run return
          TLSMode,          \* "none" | "server" (TLS listener, server authentication) | "mtls" (client certificate required and verified)
          ReadTimeout       \* TRUE: the server was created WithReadTimeout: one read deadline per connection, armed when it is accepted

VARIABLES
  run,        \* pc of the Run goroutine: "idle" | "prelisten" | "loop" | "accept" | "register" | "returned"
  runArg,     \* connection being registered, or "none"
  runRes,     \* "none" | "nil" | "error"
  listener,   \* "none" | "open" | "closed"
  ready,      \* Server.listenerReady
  ctxDone,    \* shutdown context cancelled
  connWg,     \* Server.connWg counter
  nextID,     \* Run's connID counter
  alive,      \* the process has not crashed
  muR,        \* Stop callers holding Server.mu.RLock
  stop,       \* [Stoppers -> "idle" | "close" | "cancel" | "wait" | "returned"]
  net,        \* [Conns -> "none" | "backlog" | "open" | "cclosed"]  client side of the TCP connection
  inq,        \* [Conns -> Seq(FrameKinds)]  frames in flight to the server
  sent,       \* [Conns -> Nat]
  cpc,        \* [Conns -> pc of the connection goroutine]
  cid,        \* [Conns -> connection ID (0: never registered)]
  nreq,       \* [Conns -> request counter of the read loop]
  reqWg,      \* [Conns -> conn.requestsWg counter]
  hs,         \* [Conns -> [1..MaxReq+1 -> "none" | "running" | "held" | "done"]]  handler of the i-th request
  sock,       \* [Conns -> "none" | "open" | "closed"]  server side socket
  onclose,    \* [Conns -> number of OnClose calls]
  afterUnbind,\* [Conns -> BOOLEAN] an Unbind has been read on c
  acceptFault,\* "none" | "pending" (the next Accept fails with a temporary error: descriptor exhaustion) | "done" (at most one per run)
  ckind,      \* [Conns -> client kind: "valid" | "silent" | "plaintext" | "garbage" | "nocert" | "wrongca"] (relevant when TLSMode # "none")
  tls,        \* [Conns -> "plain" | "tls"] transport of the connection (TLS listener: after the handshake; StartTLS: after the upgrade)
  nr,         \* [Conns -> BOOLEAN] the client has stopped reading: writes to it block once the buffers are full
  rdl,        \* [Conns -> BOOLEAN] the connection's read deadline (WithReadTimeout) has expired: every read fails from now on
  dispatched  \* history: [Conns -> Seq(<<kind, Request.ID>>)] what the read loop handed to handlers, in order

vars == <<run, runArg, runRes, listener, ready, ctxDone, connWg, nextID, alive, muR, stop, acceptFault, net, inq, sent, ckind, nr, rdl, cpc, tls, cid, nreq, reqWg, hs, sock, onclose, afterUnbind, dispatched>>
srvVars == <<run, runArg, runRes, listener, ready, ctxDone, connWg, nextID, alive, muR, stop, acceptFault>>
cliVars == <<net, inq, sent, ckind, nr, rdl>>
conVars == <<cpc, tls, cid, nreq, reqWg, hs, sock, onclose, afterUnbind, dispatched>>

Init ==
  /\ run = "idle" /\ runArg = "none" /\ runRes = "none" /\ listener = "none" /\ ready = FALSE /\ ctxDone = FALSE
  /\ connWg = 0 /\ nextID = 0 /\ alive = TRUE /\ muR = {} /\ stop = [s \in Stoppers |-> "idle"] /\ acceptFault = "none"
  /\ net = [c \in Conns |-> "none"] /\ inq = [c \in Conns |-> <<>>] /\ sent = [c \in Conns |-> 0] /\ nr = [c \in Conns |-> FALSE] /\ rdl = [c \in Conns |-> FALSE]
  /\ ckind = [c \in Conns |-> "valid"] /\ tls = [c \in Conns |-> "plain"]
  /\ cpc = [c \in Conns |-> "none"] /\ cid = [c \in Conns |-> 0] /\ nreq = [c \in Conns |-> 0]
  /\ reqWg = [c \in Conns |-> 0] /\ hs = [c \in Conns |-> [i \in 1..(MaxReq + 1) |-> "none"]]
  /\ sock = [c \in Conns |-> "none"] /\ onclose = [c \in Conns |-> 0]
  /\ afterUnbind = [c \in Conns |-> FALSE] /\ dispatched = [c \in Conns |-> <<>>]

--------------------------------------------------------------------------
(* Run goroutine *)
RunStart == /\ run = "idle" /\ run' = "prelisten"
            /\ UNCHANGED <<runArg, runRes, listener, ready, ctxDone, connWg, nextID, alive, muR, stop, acceptFault, cliVars, conVars>>
\* s.mu.Lock(); net.Listen; listenerReady = ...; s.mu.Unlock()   (excluded by a Stop holding the read lock)
RunListen ==
  /\ run = "prelisten" /\ muR = {}
  /\ IF ListenFails
       THEN /\ ready' = ~ReadyOnlyIfListening /\ run' = "returned" /\ runRes' = "error" /\ UNCHANGED listener
       ELSE /\ listener' = "open" /\ ready' = TRUE /\ run' = "loop" /\ UNCHANGED runRes
  /\ UNCHANGED <<runArg, ctxDone, connWg, nextID, alive, muR, stop, acceptFault, cliVars, conVars>>
\* top of the accept loop: connID++, shutdown check
RunLoopHead ==
  /\ run = "loop" /\ nextID' = nextID + 1
  /\ IF ctxDone
       THEN /\ run' = "returned" /\ runRes' = "nil"
            /\ listener' = IF CloseOnCtx /\ listener = "open" THEN "closed" ELSE listener
       ELSE run' = "accept" /\ UNCHANGED <<listener, runRes>>
  /\ UNCHANGED <<runArg, ready, ctxDone, connWg, alive, muR, stop, acceptFault, cliVars, conVars>>
RunAcceptClosed ==
  /\ run = "accept" /\ listener = "closed" /\ run' = "returned" /\ runRes' = "nil"
  /\ UNCHANGED <<runArg, listener, ready, ctxDone, connWg, nextID, alive, muR, stop, acceptFault, cliVars, conVars>>
\* Accept fails with a temporary error (EMFILE): back off and try again (or, in the variant, give up)
RunAcceptTempErr ==
  /\ run = "accept" /\ listener = "open" /\ acceptFault = "pending" /\ acceptFault' = "done"
  /\ IF AcceptErrorsFatal THEN run' = "returned" /\ runRes' = "error" ELSE run' = "loop" /\ UNCHANGED runRes
  /\ UNCHANGED <<runArg, listener, ready, ctxDone, connWg, nextID, alive, muR, stop, cliVars, conVars>>
AcceptFault == /\ acceptFault = "none" /\ run \in {"loop", "accept"} /\ acceptFault' = "pending"
               /\ UNCHANGED <<run, runArg, runRes, listener, ready, ctxDone, connWg, nextID, alive, muR, stop, cliVars, conVars>>
RunAccept(c) ==
  /\ run = "accept" /\ listener = "open" /\ net[c] = "backlog" /\ acceptFault # "pending"
  /\ net' = [net EXCEPT ![c] = "open"] /\ sock' = [sock EXCEPT ![c] = "open"]
  /\ run' = "register" /\ runArg' = c
  /\ UNCHANGED <<runRes, listener, ready, ctxDone, connWg, nextID, alive, muR, stop, acceptFault, inq, sent, ckind, nr, rdl, cpc, tls, cid, nreq, reqWg, hs, onclose, afterUnbind, dispatched>>
\* registration: under Server.mu with a re-check of the context (or, in the variant, a bare connWg.Add(1))
RunRegister ==
  /\ run = "register"
  /\ RegisterLocked => muR = {}
  /\ IF RegisterLocked /\ ctxDone
       THEN /\ sock' = [sock EXCEPT ![runArg] = "closed"] /\ onclose' = [onclose EXCEPT ![runArg] = @ + 1]
            /\ cid' = [cid EXCEPT ![runArg] = nextID]
            /\ UNCHANGED <<connWg, cpc>>
       ELSE /\ connWg' = connWg + 1 /\ cpc' = [cpc EXCEPT ![runArg] = "head"] /\ cid' = [cid EXCEPT ![runArg] = nextID]
            /\ UNCHANGED <<sock, onclose>>
  /\ run' = "loop" /\ runArg' = "none"
  /\ UNCHANGED <<runRes, listener, ready, ctxDone, nextID, alive, muR, stop, acceptFault, cliVars, tls, nreq, reqWg, hs, afterUnbind, dispatched>>

--------------------------------------------------------------------------
(* Stop callers *)
StopBegin(s) == /\ stop[s] = "idle" /\ muR' = muR \cup {s} /\ stop' = [stop EXCEPT ![s] = "close"]
                /\ UNCHANGED <<run, runArg, runRes, listener, ready, ctxDone, connWg, nextID, alive, acceptFault, cliVars, conVars>>
StopClose(s) == /\ stop[s] = "close" /\ listener' = IF listener = "open" THEN "closed" ELSE listener
                /\ stop' = [stop EXCEPT ![s] = "cancel"]
                /\ UNCHANGED <<run, runArg, runRes, ready, ctxDone, connWg, nextID, alive, muR, acceptFault, cliVars, conVars>>
StopCancel(s) == /\ stop[s] = "cancel" /\ ctxDone' = TRUE /\ stop' = [stop EXCEPT ![s] = "wait"]
                 /\ UNCHANGED <<run, runArg, runRes, listener, ready, connWg, nextID, alive, muR, acceptFault, cliVars, conVars>>
StopWait(s) == /\ stop[s] = "wait" /\ connWg = 0 /\ stop' = [stop EXCEPT ![s] = "returned"] /\ muR' = muR \ {s}
               /\ UNCHANGED <<run, runArg, runRes, listener, ready, ctxDone, connWg, nextID, alive, acceptFault, cliVars, conVars>>

--------------------------------------------------------------------------
(* clients (adversarial: no fairness) *)
\* without a TLS listener the only difference a client can make is whether it answers a StartTLS upgrade ("silent" does not)
ClientKinds == IF TLSMode = "none" THEN {"valid", "silent"} ELSE {"valid", "silent", "plaintext", "garbage", "nocert", "wrongca"}
DialAs(c, k) == /\ net[c] = "none" /\ listener = "open" /\ net' = [net EXCEPT ![c] = "backlog"] /\ ckind' = [ckind EXCEPT ![c] = k]
                /\ UNCHANGED <<srvVars, inq, sent, nr, rdl, conVars>>
Dial(c) == DialAs(c, "valid")
Send(c, k) == /\ net[c] \in {"backlog", "open"} /\ sent[c] < MaxReq
              /\ inq' = [inq EXCEPT ![c] = Append(@, k)] /\ sent' = [sent EXCEPT ![c] = @ + 1]
              /\ UNCHANGED <<srvVars, net, ckind, nr, rdl, conVars>>
\* the client stops reading its responses (a handler writing a large response then blocks in Write)
StopReading(c) == /\ net[c] = "open" /\ ~nr[c] /\ nr' = [nr EXCEPT ![c] = TRUE]
                  /\ UNCHANGED <<srvVars, net, inq, sent, ckind, rdl, conVars>>
ClientClose(c) == /\ net[c] = "open" /\ net' = [net EXCEPT ![c] = "cclosed"]
                  /\ UNCHANGED <<srvVars, inq, sent, ckind, nr, rdl, conVars>>
\* the read deadline of a connection expires (a timer: environment)
ReadDeadline(c) == /\ ReadTimeout /\ sock[c] = "open" /\ ~rdl[c] /\ rdl' = [rdl EXCEPT ![c] = TRUE]
                   /\ UNCHANGED <<srvVars, net, inq, sent, ckind, nr, conVars>>

--------------------------------------------------------------------------
(* connection goroutine: conn.serveRequests *)
\* loop head: requestID++, shutdown check (sends the notice of disconnection and returns)
ConnHead(c) ==
  /\ cpc[c] = "head" /\ nreq' = [nreq EXCEPT ![c] = @ + 1]
  /\ cpc' = [cpc EXCEPT ![c] = IF ctxDone THEN "exit" ELSE "read"]
  /\ UNCHANGED <<srvVars, cliVars, tls, cid, reqWg, hs, sock, onclose, afterUnbind, dispatched>>
\* half a frame keeps the reader waiting - unless more bytes follow: then it reads a frame made of both, which does not parse
NothingToRead(c) == IF inq[c] = <<>> \/ (TLSMode # "none" /\ tls[c] = "plain") THEN TRUE ELSE (Head(inq[c]) = "partial" /\ Len(inq[c]) = 1)
\* blocked in the BER reader until a frame, EOF or (WakeOnCancel) the shutdown deadline
\* TLS listener: the first read performs the handshake; what happens depends on what the client does
NeedsHandshake(c) == TLSMode # "none" /\ tls[c] = "plain"
HandshakeOK(c) == HandshakeOKFor(TLSMode, ckind[c])
\* a silent client, or one that will talk plaintext but has not sent anything yet, keeps the handshake waiting
HandshakePending(c) == ckind[c] = "silent" \/ (ckind[c] = "plaintext" /\ inq[c] = <<>>)
ConnHandshake(c) ==
  /\ cpc[c] = "read" /\ NeedsHandshake(c) /\ ~HandshakePending(c) /\ ~rdl[c]
  /\ IF HandshakeOK(c) THEN tls' = [tls EXCEPT ![c] = "tls"] /\ UNCHANGED cpc
     ELSE cpc' = [cpc EXCEPT ![c] = "exit"] /\ UNCHANGED tls        \* handshake failure is an ordinary read error
  /\ UNCHANGED <<srvVars, cliVars, cid, nreq, reqWg, hs, sock, onclose, afterUnbind, dispatched>>
ConnRead(c) ==
  /\ cpc[c] = "read" /\ (NeedsHandshake(c) => HandshakePending(c) \/ rdl[c])
  /\ \/ /\ ~NothingToRead(c) /\ ~NeedsHandshake(c) /\ ~rdl[c]
        /\ LET k == Head(inq[c]) IN
           /\ inq' = [inq EXCEPT ![c] = Tail(@)]
           /\ CASE k = "op" -> \* default case: requestsWg.Add(1); go router.serve
                     /\ reqWg' = [reqWg EXCEPT ![c] = @ + 1]
                     /\ hs' = [hs EXCEPT ![c][nreq[c]] = "running"]
                     /\ dispatched' = [dispatched EXCEPT ![c] = Append(@, <<"op", nreq[c]>>)]
                     /\ cpc' = [cpc EXCEPT ![c] = "head"] /\ UNCHANGED afterUnbind
                [] k = "unbind" -> \* optional unbind route inline, then return
                     /\ dispatched' = [dispatched EXCEPT ![c] = Append(@, <<"unbind", nreq[c]>>)]
                     /\ afterUnbind' = [afterUnbind EXCEPT ![c] = TRUE]
                     /\ cpc' = [cpc EXCEPT ![c] = "exit"] /\ UNCHANGED <<reqWg, hs>>
                [] k = "starttls" -> \* served inline on the connection goroutine
                     /\ dispatched' = [dispatched EXCEPT ![c] = Append(@, <<"starttls", nreq[c]>>)]
                     /\ hs' = [hs EXCEPT ![c][nreq[c]] = "inline"]
                     /\ cpc' = [cpc EXCEPT ![c] = "inline"] /\ UNCHANGED <<reqWg, afterUnbind>>
                [] k \in {"bad", "partial"} -> \* malformed / unsupported (or half a frame glued to the next one): error return
                     /\ cpc' = [cpc EXCEPT ![c] = "exit"] /\ UNCHANGED <<reqWg, hs, afterUnbind, dispatched>>
     \/ /\ rdl[c]                                          \* the connection's read deadline has expired: error return
        /\ cpc' = [cpc EXCEPT ![c] = IF WakeOnCancel /\ ctxDone THEN "head" ELSE "exit"] /\ UNCHANGED <<inq, reqWg, hs, afterUnbind, dispatched>>
     \/ /\ NothingToRead(c) /\ net[c] = "cclosed"           \* EOF (possibly in the middle of a frame)
        /\ cpc' = [cpc EXCEPT ![c] = "exit"] /\ UNCHANGED <<inq, reqWg, hs, afterUnbind, dispatched>>
     \/ /\ NothingToRead(c) /\ WakeOnCancel /\ ctxDone      \* read deadline: back to the loop head
        /\ cpc' = [cpc EXCEPT ![c] = "head"] /\ UNCHANGED <<inq, reqWg, hs, afterUnbind, dispatched>>
  /\ UNCHANGED <<srvVars, net, sent, ckind, nr, rdl, tls, cid, nreq, sock, onclose>>
\* the inline (StartTLS) handler returns
\* (Request.StartTLS handshakes on the raw connection, then swaps reader and writer; with a client that never
\* starts the handshake it only returns - with an error - once the shutdown deadline or the client's close ends the wait)
ConnInlineReturn(c) ==
  /\ cpc[c] = "inline" /\ hs' = [hs EXCEPT ![c][nreq[c]] = "done"] /\ cpc' = [cpc EXCEPT ![c] = "head"]
  /\ IF TLSMode = "none" /\ ckind[c] = "silent"
       THEN ((WakeOnCancel /\ ctxDone) \/ net[c] = "cclosed" \/ rdl[c]) /\ UNCHANGED tls
       ELSE tls' = [tls EXCEPT ![c] = IF rdl[c] THEN @ ELSE "tls"]     \* (an expired read deadline fails the handshake at once)
  /\ UNCHANGED <<srvVars, cliVars, cid, nreq, reqWg, sock, onclose, afterUnbind, dispatched>>
\* the inline handler panics: recovered on the connection goroutine, which then ends this connection
ConnInlinePanic(c) ==
  /\ cpc[c] = "inline" /\ hs' = [hs EXCEPT ![c][nreq[c]] = "done"] /\ cpc' = [cpc EXCEPT ![c] = "exit"]
  /\ UNCHANGED <<srvVars, cliVars, tls, cid, nreq, reqWg, sock, onclose, afterUnbind, dispatched>>
\* teardown (the deferred functions of the connection goroutine); order depends on DoneLast
ConnExit(c) == /\ cpc[c] = "exit" /\ cpc' = [cpc EXCEPT ![c] = IF DoneLast THEN "twait" ELSE "tdone"]
               /\ UNCHANGED <<srvVars, cliVars, tls, cid, nreq, reqWg, hs, sock, onclose, afterUnbind, dispatched>>
TDone(c) == /\ cpc[c] = "tdone" /\ connWg' = connWg - 1
            /\ cpc' = [cpc EXCEPT ![c] = IF DoneLast THEN "end" ELSE "twait"]
            /\ UNCHANGED <<run, runArg, runRes, listener, ready, ctxDone, nextID, alive, muR, stop, acceptFault, cliVars, tls, cid, nreq, reqWg, hs, sock, onclose, afterUnbind, dispatched>>
TWait(c) == /\ cpc[c] = "twait" /\ reqWg[c] = 0 /\ cpc' = [cpc EXCEPT ![c] = "tclose"]
            /\ UNCHANGED <<srvVars, cliVars, tls, cid, nreq, reqWg, hs, sock, onclose, afterUnbind, dispatched>>
TClose(c) == /\ cpc[c] = "tclose" /\ sock' = [sock EXCEPT ![c] = "closed"] /\ cpc' = [cpc EXCEPT ![c] = "tonclose"]
             /\ UNCHANGED <<srvVars, cliVars, tls, cid, nreq, reqWg, hs, onclose, afterUnbind, dispatched>>
TOnClose(c) == /\ cpc[c] = "tonclose" /\ onclose' = [onclose EXCEPT ![c] = @ + 1]
               /\ cpc' = [cpc EXCEPT ![c] = IF DoneLast THEN "tdone" ELSE "end"]
               /\ UNCHANGED <<srvVars, cliVars, tls, cid, nreq, reqWg, hs, sock, afterUnbind, dispatched>>

--------------------------------------------------------------------------
(* handler goroutines: user code decides when they return (Hold / Release are environment actions) *)
HHold(c, i) == /\ hs[c][i] = "running" /\ hs' = [hs EXCEPT ![c][i] = "held"]
               /\ UNCHANGED <<srvVars, cliVars, cpc, tls, cid, nreq, reqWg, sock, onclose, afterUnbind, dispatched>>
HRelease(c, i) == /\ hs[c][i] = "held" /\ hs' = [hs EXCEPT ![c][i] = "running"]
                  /\ UNCHANGED <<srvVars, cliVars, cpc, tls, cid, nreq, reqWg, sock, onclose, afterUnbind, dispatched>>
\* (its Write to a client that does not read only ends once the shutdown write deadline fires)
HReturn(c, i) == /\ hs[c][i] = "running" /\ (nr[c] => (WakeOnCancel /\ ctxDone) \/ net[c] = "cclosed")
                 /\ hs' = [hs EXCEPT ![c][i] = "done"] /\ reqWg' = [reqWg EXCEPT ![c] = @ - 1]
                 /\ UNCHANGED <<srvVars, cliVars, cpc, tls, cid, nreq, sock, onclose, afterUnbind, dispatched>>
HPanic(c, i) == /\ hs[c][i] \in {"running", "held"}
                /\ IF HandlerRecover THEN hs' = [hs EXCEPT ![c][i] = "done"] /\ reqWg' = [reqWg EXCEPT ![c] = @ - 1] /\ UNCHANGED alive
                   ELSE alive' = FALSE /\ UNCHANGED <<hs, reqWg>>
                /\ UNCHANGED <<run, runArg, runRes, listener, ready, ctxDone, connWg, nextID, muR, stop, acceptFault, cliVars, cpc, tls, cid, nreq, sock, onclose, afterUnbind, dispatched>>

--------------------------------------------------------------------------
Server == \/ RunListen \/ RunLoopHead \/ RunAcceptClosed \/ RunRegister \/ RunAcceptTempErr
          \/ \E c \in Conns : RunAccept(c) \/ ConnHead(c) \/ ConnHandshake(c) \/ ConnRead(c) \/ ConnInlineReturn(c) \/ ConnExit(c)
                              \/ TDone(c) \/ TWait(c) \/ TClose(c) \/ TOnClose(c)
          \/ \E c \in Conns, i \in 1..(MaxReq + 1) : HReturn(c, i)
          \/ \E s \in Stoppers : StopClose(s) \/ StopCancel(s) \/ StopWait(s)
Env == \/ RunStart \/ AcceptFault \/ (\E s \in Stoppers : StopBegin(s)) \/ (\E c \in Conns : ConnInlinePanic(c))
       \/ \E c \in Conns : (\E k \in ClientKinds : DialAs(c, k)) \/ ClientClose(c) \/ StopReading(c) \/ ReadDeadline(c) \/ (\E k \in FrameKinds : Send(c, k))
       \/ \E c \in Conns, i \in 1..(MaxReq + 1) : HHold(c, i) \/ HRelease(c, i) \/ HPanic(c, i)
Next == alive /\ (Server \/ Env)
\* fairness of the server's own steps only: clients and user code (held handlers) may do nothing forever
Spec == Init /\ [][Next]_vars /\ WF_vars(Server)

--------------------------------------------------------------------------
(* properties *)
Accepted(c) == cid[c] # 0
Reqs == 1..(MaxReq + 1)
AnyStopReturned == \E s \in Stoppers : stop[s] = "returned"

\* C06: requests are numbered 1, 2, 3, ... in arrival order
ReqIDsInOrder == \A c \in Conns : \A k \in 1..Len(dispatched[c]) : dispatched[c][k][2] = k
\* C06: a running (blocked) handler never keeps the read loop from dispatching: whenever the loop is waiting
\* for a handler it is only in teardown
NoHeadOfLine == \A c \in Conns : (cpc[c] = "read" /\ inq[c] # <<>>) => ENABLED ConnRead(c)
\* C10: nothing after an Unbind is dispatched
NothingAfterUnbind == \A c \in Conns : \A k \in 1..Len(dispatched[c]) :
                         dispatched[c][k][1] = "unbind" => k = Len(dispatched[c])
\* C07: the process survives handler panics
Alive == alive
\* C08: OnClose exactly once per accepted connection, only after its handlers returned and the socket was closed
OnCloseAtMostOnce == \A c \in Conns : onclose[c] <= 1
OnCloseAfterHandlers == \A c \in Conns : onclose[c] = 1 => (sock[c] = "closed" /\ \A i \in Reqs : hs[c][i] \notin {"running", "held", "inline"})
SocketClosedAfterHandlers == \A c \in Conns : (sock[c] = "closed" /\ Accepted(c)) => \A i \in Reqs : hs[c][i] \notin {"running", "held", "inline"}
\* C09: positive, unique connection IDs
ConnIDsUnique == \A a, b \in Conns : (a # b /\ Accepted(a) /\ Accepted(b)) => cid[a] # cid[b]
\* C12: once Stop and Run have both returned everything is quiet
QuiescentAfterStop ==
  (AnyStopReturned /\ run = "returned") =>
     /\ listener # "open"
     /\ \A c \in Conns : \A i \in Reqs : hs[c][i] \notin {"running", "held", "inline"}
     /\ \A c \in Conns : sock[c] # "open"
     /\ \A c \in Conns : Accepted(c) => onclose[c] = 1
\* C17: Ready implies listening (until Stop is called); never ready when listen failed
ReadyImpliesListening == (ready /\ \A s \in Stoppers : stop[s] = "idle") => listener = "open"
NoReadyOnListenFailure == ListenFails => ~ready
\* C11: Stop returns unless user code holds a handler for ever (clients can do nothing to prevent it)
StopTerminates == \A s \in Stoppers : (stop[s] = "close") ~> (stop[s] = "returned" \/ ~alive \/ \E c \in Conns, i \in Reqs : hs[c][i] = "held")
RunReturnsNil == [](run = "returned" /\ ~ListenFails => runRes = "nil")
\* C08 (liveness): every accepted connection whose client went away is eventually torn down
EventuallyTornDown == \A c \in Conns : (Accepted(c) /\ net[c] = "cclosed") ~> (onclose[c] = 1 \/ ~alive \/ \E i \in Reqs : hs[c][i] = "held")

TypeOK == /\ run \in {"idle", "prelisten", "loop", "accept", "register", "returned"}
          /\ listener \in {"none", "open", "closed"} /\ connWg \in 0..Cardinality(Conns) /\ nextID \in Nat
\* C18: with TLS configured a handler only ever runs for a connection whose handshake satisfied the configuration
HandlersOnlyAfterTLS == TLSMode # "none" => \A c \in Conns : (\E i \in Reqs : hs[c][i] # "none") => (tls[c] = "tls" /\ HandshakeOK(c))
\* C13: no request is read while the StartTLS handler runs (the read loop itself runs it)
StartTLSAtomic == \A c \in Conns : cpc[c] = "inline" => ~ENABLED ConnRead(c)
\* C07: a temporary accept failure does not end the server
KeepsAccepting == (run = "returned" /\ runRes = "error") => ListenFails
View == <<run, runArg, runRes, listener, ready, ctxDone, connWg, nextID, alive, muR, stop, acceptFault, net, inq, sent, ckind, nr, rdl, cpc, tls, cid, nreq, reqWg, hs, sock, onclose, afterUnbind>>
==========================================================================
