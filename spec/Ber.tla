-------------------------------- MODULE Ber --------------------------------
(* Abstract BER trees.  A node is                                           *)
(*   [c |-> class "U"|"A"|"C"|"P", k |-> constructed?, t |-> tag number,    *)
(*    v |-> value symbol of a primitive (a string), kids |-> Seq(node)]     *)
(* A primitive node with kids is an OCTET STRING (or context primitive)     *)
(* whose content is the BER encoding of its kids (control values).          *)
(* Values are symbols: "3", "0".. for small integers that the decoder       *)
(* inspects, "i0".."i3" / "s0".."s3" for integers / strings it only copies, *)
(* "true"/"false" for booleans.  The harness's own serialiser turns a tree  *)
(* into bytes (definite, minimal lengths).                                  *)
EXTENDS Integers, Sequences, FiniteSets, TLC

N(c, k, t, v, kids) == [c |-> c, k |-> k, t |-> t, v |-> v, kids |-> kids]
Prim(c, t, v) == N(c, FALSE, t, v, <<>>)
Cons(c, t, kids) == N(c, TRUE, t, "", kids)

TagBool == 1  TagInt == 2  TagOct == 4  TagNull == 5  TagEnum == 10  TagSeq == 16  TagSet == 17
BInt(v)  == Prim("U", TagInt, v)
BEnum(v) == Prim("U", TagEnum, v)
BBool(v) == Prim("U", TagBool, v)
BStr(v)  == Prim("U", TagOct, v)
BNull    == Prim("U", TagNull, "")
BSeq(kids) == Cons("U", TagSeq, kids)
BSet(kids) == Cons("U", TagSet, kids)
BWrap(kids) == N("U", FALSE, TagOct, "", kids)      \* OCTET STRING holding encoded kids

IsU(n, k, t) == n.c = "U" /\ n.k = k /\ n.t = t
\* the dynamic type asn1-ber gives Packet.Value (what a Go type assertion sees)
DynType(n) == IF n.c # "U" \/ n.k THEN "nil"
              ELSE CASE n.t \in {TagInt, TagEnum} -> "int64" [] n.t = TagBool -> "bool" [] n.t = TagOct -> "string" [] OTHER -> "nil"

--------------------------------------------------------------------------
(* single-point mutations (C02): replacement kinds, and structural edits   *)
Replacements ==
  { BInt("1"), BBool("true"), BStr("s1"), BNull, BSeq(<<>>), BSeq(<<BStr("s1")>>), BSet(<<>>), BSet(<<BInt("1")>>),
    Prim("C", 0, "s1"), Cons("C", 0, <<BStr("s1")>>), Prim("A", 10, "s1"), Cons("A", 3, <<BStr("s1")>>),
    \* other context-specific choices (a SASL authentication choice is [3] constructed): empty, with one and with two members
    Cons("C", 3, <<>>), Cons("C", 3, <<BStr("s1")>>), Cons("C", 3, <<BStr("s1"), BStr("s2")>>), Prim("C", 3, "s1"), Cons("C", 0, <<>>), Prim("C", 1, "s0") }

RemoveAtB(s, i) == SubSeq(s, 1, i - 1) \o SubSeq(s, i + 1, Len(s))
DupAt(s, i)    == SubSeq(s, 1, i) \o SubSeq(s, i, Len(s))
SwapAt(s, i)   == [j \in 1..Len(s) |-> IF j = i THEN s[i + 1] ELSE IF j = i + 1 THEN s[i] ELSE s[j]]

\* all trees obtained from n by one edit somewhere inside it (not replacing n itself)
RECURSIVE Inner(_)
Inner(n) ==
  LET ks == n.kids IN
     {[n EXCEPT !.kids = [ks EXCEPT ![i] = r]] : i \in 1..Len(ks), r \in Replacements}
  \cup {[n EXCEPT !.kids = RemoveAtB(ks, i)] : i \in 1..Len(ks)}
  \cup {[n EXCEPT !.kids = DupAt(ks, i)] : i \in 1..Len(ks)}
  \cup {[n EXCEPT !.kids = SwapAt(ks, i)] : i \in 1..(Len(ks) - 1)}
  \cup {[n EXCEPT !.kids = [ks EXCEPT ![i] = [ks[i] EXCEPT !.v = "s0"]]] : i \in {j \in 1..Len(ks) : ~ks[j].k /\ ks[j].c # "F" /\ ks[j].kids = <<>> /\ ks[j].v # "s0"}}   \* empty content
  \cup (IF n.k \/ Len(ks) > 0 THEN {[n EXCEPT !.kids = Append(ks, r)] : r \in {BNull, BStr("s1"), BSeq(<<>>)}} ELSE {})
  \cup UNION {{[n EXCEPT !.kids = [ks EXCEPT ![i] = m]] : m \in Inner(ks[i])} : i \in 1..Len(ks)}
Mutants1(n) == Inner(n) \cup Replacements
==========================================================================
