----------------------------- MODULE Directory -----------------------------
(* The test directory (testdirectory/directory.go) as a state machine.      *)
(* Properties C19 (bind) and C20 (add / modify / delete / search).          *)
(*                                                                          *)
(* State: the user and group entries (in slice order) and the anonymous-    *)
(* bind flag.  One action per LDAP operation handler and per Set* method;   *)
(* every action also produces the reply the client sees (variable reply).   *)
(* Entry DNs of a pool are never substrings of one another (the property's  *)
(* precondition), so the directory's substring DN matching is equality.     *)
EXTENDS Naturals, Sequences, FiniteSets, TLC

Success == 0
NoSuchObject == 32
InvalidCredentials == 49
EntryAlreadyExists == 68

Attr(n, vs) == [name |-> n, vals |-> vs]
Entry(dn, as) == [dn |-> dn, attrs |-> as]

--------------------------------------------------------------------------
(* helpers over attribute sequences *)
RECURSIVE IndexOfLast(_, _, _)
IndexOfLast(as, n, i) ==            \* handleModify keeps the LAST attribute with that name
  IF i = 0 THEN 0 ELSE IF as[i].name = n THEN i ELSE IndexOfLast(as, n, i - 1)
RECURSIVE IndexOfFirst(_, _, _)
IndexOfFirst(as, n, i) ==           \* Entry.GetAttributeValues returns the FIRST one
  IF i > Len(as) THEN 0 ELSE IF as[i].name = n THEN i ELSE IndexOfFirst(as, n, i + 1)
RemoveAt(s, i) == SubSeq(s, 1, i - 1) \o SubSeq(s, i + 1, Len(s))
\* add / modify / delete find their entry by substring: a request DN that is a proper substring of an entry's DN names that
\* entry too.  "pu1" is concretised as a proper substring of u1's DN (no entry ever has the DN "pu1"); all other pool DNs
\* are substrings of nothing but themselves.  (Bind compares DNs exactly.)
Names(req, dn) == req = dn \/ (req = "pu1" /\ dn = "u1")
Indices(es, dn) == {i \in 1..Len(es) : Names(dn, es[i].dn)}

\* attribute names used by the generators are ordered by this table (byte order of the concrete names)
NameOrder == <<"a1", "a2", "a3", "password">>
RECURSIVE Pos(_, _, _)
Pos(s, x, i) == IF i > Len(s) THEN 0 ELSE IF s[i] = x THEN i ELSE Pos(s, x, i + 1)
NameLE(a, b) == Pos(NameOrder, a, 1) <= Pos(NameOrder, b, 1)
\* gldap.NewEntry: attributes sorted by name (names are distinct in an add request)
RECURSIVE SortAttrs(_)
SortAttrs(as) ==
  IF Len(as) = 0 THEN <<>>
  ELSE LET m == CHOOSE i \in 1..Len(as) : \A j \in 1..Len(as) : NameLE(as[i].name, as[j].name)
       IN <<as[m]>> \o SortAttrs(RemoveAt(as, m))

--------------------------------------------------------------------------
(* C19: handleBind *)
FirstPassword(e) == LET i == IndexOfFirst(e.attrs, "password", 1) IN
                    IF i = 0 \/ Len(e.attrs[i].vals) = 0 THEN [has |-> FALSE, v |-> ""]
                    ELSE [has |-> TRUE, v |-> e.attrs[i].vals[1]]
BindResult(us, anon, dn, pw) ==
  IF pw = "" /\ anon THEN Success
  ELSE IF \E i \in 1..Len(us) : us[i].dn = dn /\ FirstPassword(us[i]).has /\ FirstPassword(us[i]).v = pw
       THEN Success ELSE InvalidCredentials
\* the property, stated as in C19 (not as in the code): success iff ...
C19Holds(us, anon, dn, pw) ==
  (BindResult(us, anon, dn, pw) = Success) <=>
     \/ (pw = "" /\ anon)
     \/ \E i \in 1..Len(us) : /\ us[i].dn = dn
                              /\ \E k \in 1..Len(us[i].attrs) :
                                    /\ us[i].attrs[k].name = "password"
                                    /\ \A j \in 1..(k - 1) : us[i].attrs[j].name # "password"
                                    /\ Len(us[i].attrs[k].vals) > 0 /\ us[i].attrs[k].vals[1] = pw

--------------------------------------------------------------------------
(* C20: the store *)
VARIABLES users, groups, allowAnon, reply,
          tokenGroups      \* function SID -> sequence of entries (SetTokenGroups); <<>> = none configured
dvars == <<users, groups, allowAnon, reply, tokenGroups>>

DirInit(us, gs) == users = us /\ groups = gs /\ allowAnon = FALSE /\ tokenGroups = <<>> /\ reply = [op |-> "init", code |-> 0]

\* handleAdd: exists check against users only; the new entry goes to users
Add(dn, as) ==
  /\ IF Indices(users, dn) # {}
       THEN users' = users /\ reply' = [op |-> "add", code |-> EntryAlreadyExists]
       ELSE users' = Append(users, Entry(dn, SortAttrs(as))) /\ reply' = [op |-> "add", code |-> Success]
  /\ UNCHANGED <<groups, allowAnon, tokenGroups>>

\* gldap hands modify values to the handler in their BER-wrapped form (what ConvertString unwraps) and
\* the test directory stores them as they come: W(v) is the wrapped form of v
W(v) == "w:" \o v
KnownVals == {"", "v1", "v2", "v3", "p", "q"}
Unwrap(x) == IF \E v \in KnownVals : x = W(v) THEN CHOOSE v \in KnownVals : x = W(v) ELSE x
WrapAll(vs) == [i \in 1..Len(vs) |-> W(vs[i])]
\* one change applied to an attribute sequence (handleModify's switch)
ApplyChange(as, ch) ==
  LET i == IndexOfLast(as, ch.name, Len(as))  wv == WrapAll(ch.vals) IN
  CASE ch.op = "add"     -> IF i > 0 THEN [as EXCEPT ![i].vals = @ \o wv] ELSE Append(as, Attr(ch.name, wv))
    [] ch.op = "delete"  -> IF i > 0 THEN RemoveAt(as, i) ELSE as
    [] ch.op = "replace" -> IF i > 0 THEN [as EXCEPT ![i] = Attr(ch.name, wv)] ELSE as
RECURSIVE ApplyChanges(_, _)
ApplyChanges(as, chs) == IF Len(chs) = 0 THEN as ELSE ApplyChanges(ApplyChange(as, Head(chs)), Tail(chs))

\* handleModify: user entries only (groups are never found by it)
Modify(dn, chs) ==
  /\ LET I == Indices(users, dn) IN
     IF I = {} THEN users' = users /\ reply' = [op |-> "modify", code |-> NoSuchObject]
     ELSE LET i == CHOOSE k \in I : TRUE IN
          /\ users' = [users EXCEPT ![i].attrs = ApplyChanges(@, chs)]
          /\ reply' = [op |-> "modify", code |-> Success]
  /\ UNCHANGED <<groups, allowAnon, tokenGroups>>

\* handleDelete: users first, then groups
Delete(dn) ==
  LET U == Indices(users, dn)  G == Indices(groups, dn) IN
  /\ IF U # {} THEN users' = RemoveAt(users, CHOOSE k \in U : TRUE) /\ groups' = groups /\ reply' = [op |-> "delete", code |-> Success]
     ELSE IF G # {} THEN groups' = RemoveAt(groups, CHOOSE k \in G : TRUE) /\ users' = users /\ reply' = [op |-> "delete", code |-> Success]
     ELSE UNCHANGED <<users, groups>> /\ reply' = [op |-> "delete", code |-> NoSuchObject]
  /\ UNCHANGED <<allowAnon, tokenGroups>>

SetUsers(us)  == users' = us /\ reply' = [op |-> "setusers", code |-> 0] /\ UNCHANGED <<groups, allowAnon, tokenGroups>>
SetGroups(gs) == groups' = gs /\ reply' = [op |-> "setgroups", code |-> 0] /\ UNCHANGED <<users, allowAnon, tokenGroups>>
SetAnon(b)    == allowAnon' = b /\ reply' = [op |-> "setanon", code |-> 0] /\ UNCHANGED <<users, groups, tokenGroups>>
SetTokenGroups(tg) == tokenGroups' = tg /\ reply' = [op |-> "settokengroups", code |-> 0] /\ UNCHANGED <<users, groups, allowAnon>>
Bind(dn, pw)  == reply' = [op |-> "bind", code |-> BindResult(users, allowAnon, dn, pw)] /\ UNCHANGED <<users, groups, allowAnon, tokenGroups>>

\* what a search for exactly this DN returns (users route / groups route), in slice order
RECURSIVE Select(_, _)
Select(es, dn) == IF Len(es) = 0 THEN <<>>
                  ELSE (IF Head(es).dn = dn THEN <<Head(es)>> ELSE <<>>) \o Select(Tail(es), dn)
SearchUsers(dn)  == Select(users, dn)
SearchGroups(dn) == Select(groups, dn)
SearchCode(found) == IF Len(found) > 0 THEN Success ELSE NoSuchObject
\* the route without a base DN (handleSearchGeneric), asked with an entry's DN as base: users first, then groups
SearchGeneric(dn) == Select(users, dn) \o Select(groups, dn)
\* ... and asked with base "<SID=sid>": the configured token groups of that SID - always success once any token groups
\* are configured; without them the request falls through to DN matching (the harness's filter matches no DN)
SearchSID(sid) == IF DOMAIN tokenGroups # {}
                    THEN [found |-> IF sid \in DOMAIN tokenGroups THEN tokenGroups[sid] ELSE <<>>, code |-> Success]
                    ELSE [found |-> <<>>, code |-> NoSuchObject]

--------------------------------------------------------------------------
(* C20 stated over the model (checked by TLC on the exhaustive configuration of DirectoryGen): *)
\* at most one user per DN is ever created by Add (adding an existing DN changes nothing)
NoDupAfterAdd(dn) == Cardinality(Indices(users, dn)) <= 1
==========================================================================
