-------------------------------- MODULE Req --------------------------------
(* LDAPv3 request encoding (what a client sends, RFC 4511) and gldap's      *)
(* request decoding (packet.go, message.go, request.go newRequest, add.go,  *)
(* control.go decodeControl), over the abstract BER trees of Ber.tla.       *)
(* Properties C01 (a decoded request carries what the client sent) and      *)
(* C02 (decoding is total: delivered or rejected, nothing else).            *)
EXTENDS Ber, Ctl

--------------------------------------------------------------------------
(* abstract requests *)
Ids  == {"i0", "i1", "i2", "i3"}          \* message ids: 0, 127/128/.., 2^31-1, seed-chosen
Strs4 == {"s0", "s1", "s2", "s3", "s4"}   \* s0 is the empty string; s4 is a DN written with blanks around its commas (a search route
                                          \* registered for the same DN without blanks must neither fire nor touch it)
\* f13..f16: long filters (beyond 64 bytes) in sibling pairs whose content is byte-identical and whose operator differs
Filters == {"f1", "f2", "f3", "f4", "f5", "f6", "f7", "f8", "f9", "f10", "f11", "f12", "f13", "f14", "f15", "f16"}
R(op, id, ver, dn, pw, scope, deref, size, time, types, filter, attrs, changes, addattrs, name, ctls) ==
  [op |-> op, id |-> id, ver |-> ver, dn |-> dn, pw |-> pw, scope |-> scope, deref |-> deref, size |-> size, time |-> time,
   types |-> types, filter |-> filter, attrs |-> attrs, changes |-> changes, addattrs |-> addattrs, name |-> name, ctls |-> ctls]
Blank(op, id) == R(op, id, "", "", "", "", "", "", "", "", "", <<>>, <<>>, <<>>, "", <<>>)
Bind(id, ver, dn, pw, cs)  == [Blank("bind", id) EXCEPT !.ver = ver, !.dn = dn, !.pw = pw, !.ctls = cs]
Search(id, base, sc, de, sz, tm, ty, f, as, cs) ==
  [Blank("search", id) EXCEPT !.dn = base, !.scope = sc, !.deref = de, !.size = sz, !.time = tm, !.types = ty, !.filter = f, !.attrs = as, !.ctls = cs]
Modify(id, dn, chs, cs) == [Blank("modify", id) EXCEPT !.dn = dn, !.changes = chs, !.ctls = cs]
AddR(id, dn, as, cs)    == [Blank("add", id) EXCEPT !.dn = dn, !.addattrs = as, !.ctls = cs]
Delete(id, dn, cs)      == [Blank("delete", id) EXCEPT !.dn = dn, !.ctls = cs]
Extended(id, name)      == [Blank("extended", id) EXCEPT !.name = name]
Unbind(id)              == Blank("unbind", id)
Unsupported(op, id)     == Blank(op, id)          \* op in {"compare", "moddn", "abandon", "app20", "app30"}
Chg(mop, type, vals) == [mop |-> mop, type |-> type, vals |-> vals]
AV(type, vals) == [type |-> type, vals |-> vals]

AppTag(op) == CASE op = "bind" -> 0 [] op = "unbind" -> 2 [] op = "search" -> 3 [] op = "modify" -> 6 [] op = "add" -> 8
                [] op = "delete" -> 10 [] op = "moddn" -> 12 [] op = "compare" -> 14 [] op = "abandon" -> 16
                [] op = "extended" -> 23 [] op = "app20" -> 20 [] op = "app30" -> 30
                [] op = "app256" -> 256 [] op = "app258" -> 258 [] op = "app512" -> 512      \* tag numbers beyond one octet

--------------------------------------------------------------------------
(* controls on the wire, RFC form.  w = [t, oid, crit "absent"|"true"|"false", val] as in Ctl.tla *)
NumSym(p, n) == CASE n = 0 -> p \o "0" [] n = 1 -> p \o "1" [] n = 2 -> p \o "2" [] n = 3 -> p \o "3" [] n = 4 -> p \o "4"
                  [] n = 5 -> p \o "5" [] n = 6 -> p \o "6" [] n = 7 -> p \o "7" [] n = 8 -> p \o "8"
OidSym(w) == IF w.t = "string" THEN w.oid ELSE "oid:" \o w.t
CtlValueNode(v) ==
  CASE v.k = "paging"  -> <<BWrap(<<BSeq(<<BInt(NumSym("ps", v.a)), BStr(v.b)>>)>>)>>
    [] v.k = "grace"   -> <<BWrap(<<BSeq(<<Cons("C", 0, <<Prim("C", 1, NumSym("gr", v.a))>>)>>)>>)>>
    [] v.k = "expire"  -> <<BWrap(<<BSeq(<<Cons("C", 0, <<Prim("C", 0, NumSym("gr", v.a))>>)>>)>>)>>
    [] v.k = "error"   -> <<BWrap(<<BSeq(<<Prim("C", 1, NumSym("ec", v.a))>>)>>)>>
    [] v.k = "decimal" -> <<BStr(NumSym("dec", v.a))>>
    [] v.k = "str"     -> <<BStr(v.b)>>
    [] OTHER -> <<>>
EncodeCtl(w) == BSeq(<<BStr(OidSym(w))>> \o (IF w.crit = "absent" THEN <<>> ELSE <<BBool(w.crit)>>) \o CtlValueNode(w.val))
EncodeCtls(ws) == IF Len(ws) = 0 THEN <<>> ELSE <<Cons("C", 0, [i \in 1..Len(ws) |-> EncodeCtl(ws[i])])>>

--------------------------------------------------------------------------
(* EncodeRequest: RFC 4511 layout *)
StrSeq(ss) == [i \in 1..Len(ss) |-> BStr(ss[i])]
AttrNode(a) == BSeq(<<BStr(a.type), BSet(StrSeq(a.vals))>>)
FilterNode(f) == N("F", FALSE, 0, f, <<>>)          \* the harness splices in go-ldap's compilation of the filter
OpNode(r) ==
  CASE r.op = "bind"     -> Cons("A", 0, <<BInt(r.ver), BStr(r.dn), Prim("C", 0, r.pw)>>)
    [] r.op = "unbind"   -> Prim("A", 2, "")
    [] r.op = "search"   -> Cons("A", 3, <<BStr(r.dn), BEnum(r.scope), BEnum(r.deref), BInt(r.size), BInt(r.time), BBool(r.types),
                                          FilterNode(r.filter), BSeq(StrSeq(r.attrs))>>)
    [] r.op = "modify"   -> Cons("A", 6, <<BStr(r.dn), BSeq([i \in 1..Len(r.changes) |->
                                          BSeq(<<BEnum(r.changes[i].mop), BSeq(<<BStr(r.changes[i].type), BSet(StrSeq(r.changes[i].vals))>>)>>)])>>)
    [] r.op = "add"      -> Cons("A", 8, <<BStr(r.dn), BSeq([i \in 1..Len(r.addattrs) |-> AttrNode(r.addattrs[i])])>>)
    [] r.op = "delete"   -> Prim("A", 10, r.dn)
    [] r.op = "extended" -> Cons("A", 23, <<Prim("C", 0, r.name)>>)
    [] r.op = "compare"  -> Cons("A", 14, <<BStr("s1"), BSeq(<<BStr("s2"), BStr("s3")>>)>>)
    [] r.op = "moddn"    -> Cons("A", 12, <<BStr("s1"), BStr("s2"), BBool("true")>>)
    [] r.op = "abandon"  -> Prim("A", 16, "i1")
    \* high tag numbers whose low byte is a supported operation's tag, carrying that operation's fields
    [] r.op \in {"app256", "app512"} -> Cons("A", AppTag(r.op), <<BInt("3"), BStr("s1"), Prim("C", 0, "s2")>>)
    [] r.op = "app258"   -> Prim("A", 258, "")
    [] OTHER             -> Cons("A", AppTag(r.op), <<BStr("s1")>>)
EncodeRequest(r) == BSeq(<<BInt(r.id), OpNode(r)>> \o EncodeCtls(r.ctls))

--------------------------------------------------------------------------
(* Decode: gldap's request decoding, on trees.  Result: [k |-> kind | "reject" | "any", m |-> request record]  *)
(* ("any": the outcome depends on bytes the abstract tree does not fix - predicted only as delivered-or-rejected) *)
Reject == [k |-> "reject", m |-> Blank("", "")]
AnyOutcome == [k |-> "any", m |-> Blank("", "")]
Deliver(m) == [k |-> m.op, m |-> m]
Has(n, i) == i <= Len(n.kids)
Kid(n, i) == n.kids[i]
Vs(ns) == [i \in 1..Len(ns) |-> ns[i].v]

\* decodeControl on one control node: [ok, any, c]
CtlErr == [ok |-> FALSE, any |-> FALSE, c |-> Plain("")]
CtlAny == [ok |-> FALSE, any |-> TRUE, c |-> Plain("")]
CtlOk(c) == [ok |-> TRUE, any |-> FALSE, c |-> c]
TypeOfOid(o) == IF o \in {"oid:paging", "oid:behera", "oid:warning", "oid:mustchange", "oid:managedsa", "oid:msnotif", "oid:msshowdel", "oid:msttl"}
                THEN CHOOSE t \in {"paging", "behera", "warning", "mustchange", "managedsa", "msnotif", "msshowdel", "msttl"} : o = "oid:" \o t
                ELSE "string"
SymNum(p, s) == IF \E n \in 0..8 : s = NumSym(p, n) THEN CHOOSE n \in 0..8 : s = NumSym(p, n) ELSE -2
DecodeCtl(n) ==
  LET len == Len(n.kids) IN
  IF len = 0 \/ len > 3 THEN CtlErr
  ELSE IF DynType(Kid(n, 1)) # "string" THEN CtlErr
  ELSE IF len = 3 /\ DynType(Kid(n, 2)) # "bool" THEN CtlErr
  ELSE
    LET oid  == Kid(n, 1).v
        t    == TypeOfOid(oid)
        crit == IF len >= 2 /\ DynType(Kid(n, 2)) = "bool" THEN Kid(n, 2).v = "true" ELSE FALSE
        hasv == len = 3 \/ (len = 2 /\ DynType(Kid(n, 2)) # "bool")
        val  == IF len = 3 THEN Kid(n, 3) ELSE Kid(n, 2)
    IN
    CASE t = "managedsa" -> CtlOk(C("managedsa", "", crit, 0, "", Unset, Unset, Unset, ""))
      [] t \in {"mustchange", "msnotif", "msshowdel", "msttl"} -> CtlOk(Plain(t))
      [] t = "string" -> IF ~hasv THEN CtlOk(C("string", oid, crit, 0, "", Unset, Unset, Unset, ""))
                         ELSE IF DynType(val) = "string" /\ val.kids = <<>> THEN CtlOk(C("string", oid, crit, 0, "", Unset, Unset, Unset, val.v))
                         ELSE IF DynType(val) = "string" THEN CtlAny ELSE CtlErr
      [] t = "paging" -> IF ~hasv THEN CtlOk(Plain("paging"))
                         ELSE IF IsU(val, FALSE, TagOct) /\ Len(val.kids) = 1 /\ IsU(Kid(val, 1), TRUE, TagSeq) /\ Len(Kid(val, 1).kids) = 2
                                 /\ IsU(Kid(Kid(val, 1), 1), FALSE, TagInt) /\ IsU(Kid(Kid(val, 1), 2), FALSE, TagOct) /\ SymNum("ps", Kid(Kid(val, 1), 1).v) >= 0
                              THEN CtlOk(C("paging", "", FALSE, SymNum("ps", Kid(Kid(val, 1), 1).v), Kid(Kid(val, 1), 2).v, Unset, Unset, Unset, ""))
                              ELSE CtlAny
      [] t = "behera" -> IF ~hasv THEN CtlOk(Plain("behera"))
                         ELSE IF IsU(val, FALSE, TagOct) /\ Len(val.kids) = 1 /\ IsU(Kid(val, 1), TRUE, TagSeq) /\ Len(Kid(val, 1).kids) = 1
                              THEN LET e == Kid(Kid(val, 1), 1) IN
                                   IF e.c = "C" /\ e.k /\ e.t = 0 /\ Len(e.kids) = 1 /\ Kid(e, 1).c = "C" /\ ~Kid(e, 1).k /\ Kid(e, 1).t \in {0, 1} /\ SymNum("gr", Kid(e, 1).v) >= 0
                                   THEN (IF Kid(e, 1).t = 1 THEN CtlOk(C("behera", "", FALSE, 0, "", SymNum("gr", Kid(e, 1).v), Unset, Unset, ""))
                                         ELSE CtlOk(C("behera", "", FALSE, 0, "", Unset, SymNum("gr", Kid(e, 1).v), Unset, "")))
                                   ELSE IF e.c = "C" /\ ~e.k /\ e.t = 1 /\ SymNum("ec", e.v) >= 0
                                   THEN CtlOk(C("behera", "", FALSE, 0, "", Unset, Unset, SymNum("ec", e.v), ""))
                                   ELSE CtlAny
                              ELSE CtlAny
      [] t = "warning" -> IF ~hasv THEN CtlOk(Plain("warning"))
                          ELSE IF SymNum("dec", val.v) >= 0 /\ val.kids = <<>> THEN CtlOk(C("warning", "", FALSE, 0, "", Unset, SymNum("dec", val.v), Unset, ""))
                          ELSE CtlAny

\* controlPacket + the decodeControl loop: [ok, any, cs]
DecodeCtls(root) ==
  IF Len(root.kids) <= 2 THEN [ok |-> TRUE, any |-> FALSE, cs |-> <<>>]
  ELSE LET cp == Kid(root, 3) IN
       IF cp.c # "C" \/ ~cp.k THEN [ok |-> FALSE, any |-> FALSE, cs |-> <<>>]
       ELSE LET ds == [i \in 1..Len(cp.kids) |-> DecodeCtl(cp.kids[i])] IN
            IF \E i \in 1..Len(ds) : ~ds[i].ok /\ ~ds[i].any /\ \A j \in 1..(i - 1) : ds[j].ok THEN [ok |-> FALSE, any |-> FALSE, cs |-> <<>>]
            ELSE IF \E i \in 1..Len(ds) : ds[i].any THEN [ok |-> FALSE, any |-> TRUE, cs |-> <<>>]
            ELSE [ok |-> TRUE, any |-> FALSE, cs |-> [i \in 1..Len(ds) |-> ds[i].c]]

\* the wire form of a decoded control list, so that Decode's result has the same shape as a request record
WithCtls(m, root) == LET d == DecodeCtls(root) IN
                     IF d.any THEN AnyOutcome ELSE IF ~d.ok THEN Reject ELSE [k |-> m.op, m |-> [m EXCEPT !.ctls = d.cs]]

AllU(ns, k, t) == \A i \in 1..Len(ns) : IsU(ns[i], k, t)
DecodeReq(root) ==
  IF ~(IsU(root, TRUE, TagSeq) /\ Len(root.kids) >= 2) THEN Reject                     \* basicValidation
  ELSE LET idn == Kid(root, 1)  op == Kid(root, 2) IN
  IF op.c # "A" THEN Reject                                                            \* assertApplicationRequest
  ELSE IF ~op.k /\ op.t \notin {10, 2} THEN Reject
  ELSE IF op.t = 0 /\ ~(Has(op, 1) /\ IsU(Kid(op, 1), FALSE, TagInt) /\ Kid(op, 1).v = "3") THEN Reject   \* LDAPv3 gate
  ELSE IF op.t \notin {0, 2, 3, 6, 8, 10, 23} THEN Reject                               \* requestType
  ELSE IF ~IsU(idn, FALSE, TagInt) THEN Reject                                          \* requestMessageID
  ELSE
  CASE op.t = 2 -> Deliver(Unbind(idn.v))
    [] op.t = 0 ->
         IF ~(Has(op, 2) /\ IsU(Kid(op, 2), FALSE, TagOct)) THEN Reject
         ELSE IF Len(op.kids) > 3 THEN Deliver(Bind(idn.v, "3", Kid(op, 2).v, "s0", <<>>))
         ELSE IF ~(Has(op, 3) /\ Kid(op, 3).c = "C" /\ ~Kid(op, 3).k /\ Kid(op, 3).t = 0) THEN Reject
         ELSE WithCtls(Bind(idn.v, "3", Kid(op, 2).v, Kid(op, 3).v, <<>>), root)
    [] op.t = 3 ->
         IF ~(Len(op.kids) >= 6 /\ IsU(Kid(op, 1), FALSE, TagOct) /\ IsU(Kid(op, 2), FALSE, TagEnum) /\ IsU(Kid(op, 3), FALSE, TagEnum)
              /\ IsU(Kid(op, 4), FALSE, TagInt) /\ IsU(Kid(op, 5), FALSE, TagInt) /\ IsU(Kid(op, 6), FALSE, TagBool)) THEN Reject
         ELSE IF Len(op.kids) < 7 THEN Reject
         ELSE IF Kid(op, 7).c # "F" THEN AnyOutcome           \* go-ldap's DecompileFilter decides on bytes
         ELSE LET m == Search(idn.v, Kid(op, 1).v, Kid(op, 2).v, Kid(op, 3).v, Kid(op, 4).v, Kid(op, 5).v, Kid(op, 6).v, Kid(op, 7).v, <<>>, <<>>) IN
              IF Len(op.kids) < 8 THEN Deliver(m)             \* returns before attributes and controls
              ELSE IF ~(IsU(Kid(op, 8), TRUE, TagSeq) /\ AllU(Kid(op, 8).kids, FALSE, TagOct)) THEN Reject
              ELSE WithCtls([m EXCEPT !.attrs = Vs(Kid(op, 8).kids)], root)
    [] op.t = 6 ->
         IF ~op.k THEN AnyOutcome
         ELSE IF ~(Len(op.kids) >= 2 /\ IsU(Kid(op, 1), FALSE, TagOct) /\ IsU(Kid(op, 2), TRUE, TagSeq)) THEN Reject
         ELSE LET chs == Kid(op, 2).kids
                  okc(c) == IsU(c, TRUE, TagSeq) /\ Len(c.kids) >= 2 /\ IsU(Kid(c, 1), FALSE, TagEnum) /\ IsU(Kid(c, 2), TRUE, TagSeq)
                            /\ Len(Kid(c, 2).kids) >= 2 /\ IsU(Kid(Kid(c, 2), 1), FALSE, TagOct)
              IN IF \E i \in 1..Len(chs) : ~okc(chs[i]) THEN Reject
                 ELSE IF \E i \in 1..Len(chs) : ~(IsU(Kid(Kid(chs[i], 2), 2), TRUE, TagSet) /\ AllU(Kid(Kid(chs[i], 2), 2).kids, FALSE, TagOct)) THEN AnyOutcome
                 ELSE WithCtls(Modify(idn.v, Kid(op, 1).v,
                                      [i \in 1..Len(chs) |-> Chg(Kid(chs[i], 1).v, Kid(Kid(chs[i], 2), 1).v, Vs(Kid(Kid(chs[i], 2), 2).kids))], <<>>), root)
    [] op.t = 8 ->
         IF ~op.k THEN AnyOutcome
         ELSE IF ~(Len(op.kids) >= 2 /\ IsU(Kid(op, 1), FALSE, TagOct) /\ IsU(Kid(op, 2), TRUE, TagSeq)) THEN Reject
         ELSE LET as == Kid(op, 2).kids
                  oka(a) == IsU(a, TRUE, TagSeq) /\ Len(a.kids) >= 2 /\ IsU(Kid(a, 1), FALSE, TagOct) /\ IsU(Kid(a, 2), TRUE, TagSet)
                            /\ AllU(Kid(a, 2).kids, FALSE, TagOct)
              IN IF \E i \in 1..Len(as) : ~oka(as[i]) THEN Reject
                 ELSE WithCtls(AddR(idn.v, Kid(op, 1).v, [i \in 1..Len(as) |-> AV(Kid(as[i], 1).v, Vs(Kid(as[i], 2).kids))], <<>>), root)
    [] op.t = 10 -> IF op.k THEN AnyOutcome ELSE WithCtls(Delete(idn.v, op.v, <<>>), root)
    [] op.t = 23 ->
         IF ~op.k THEN AnyOutcome
         ELSE IF ~(Has(op, 1) /\ Kid(op, 1).c = "C" /\ ~Kid(op, 1).k /\ Kid(op, 1).t = 0) THEN Reject
         ELSE Deliver(Extended(idn.v, Kid(op, 1).v))

--------------------------------------------------------------------------
(* what the handler must see for a request record: the record itself with its controls decoded *)
Expected(r) == [r EXCEPT !.ctls = [i \in 1..Len(r.ctls) |-> Decode(r.ctls[i])]]
Supported(r) == r.op \in {"bind", "search", "modify", "add", "delete", "extended", "unbind"} /\ (r.op = "bind" => r.ver = "3")
\* C01 at design level: decoding the encoding of a well-formed request delivers exactly that request;
\* an unsupported operation or a bind with another version is rejected
RoundTripReq(r) == LET d == DecodeReq(EncodeRequest(r)) IN
                   IF Supported(r) THEN d.k = r.op /\ d.m = Expected(r) ELSE d.k = "reject"
\* C02 at design level: Decode has exactly these outcomes
TotalOn(tree) == DecodeReq(tree).k \in {"bind", "search", "modify", "add", "delete", "extended", "unbind", "reject", "any"}
==========================================================================
