---------------------------- MODULE GldapRefine ----------------------------
(* Refinement check: executions recorded from the real server are           *)
(* behaviours of Gldap.tla.                                                  *)
(*                                                                          *)
(* A trace is what one scenario left behind: the environment actions of the *)
(* harness, the server's own linearization points (the verifGate calls of   *)
(* server.go / conn.go, build tag verif), handler entry / exit and OnClose  *)
(* calls.  Every event carries the goroutine that logged it.  Only two      *)
(* facts about the order of events are certain, and only they are used:     *)
(*   - the events of one goroutine happened in the order they were logged;  *)
(*   - a step happened after the previous line of its own goroutine was     *)
(*     logged, hence after every step whose line was logged before that     *)
(*     one (field "after" of an event; the harness logs an "env_begin"      *)
(*     line before every environment action for this purpose).              *)
(* An event is logged after the step it reports, so the log order between   *)
(* goroutines says nothing else.  A trace is therefore given as one queue   *)
(* per goroutine, and TLC searches for an interleaving of the queues that   *)
(* Gldap's actions allow.  A trace is accepted when all its queues are      *)
(* consumed; accepted trace ids are collected in a TLC register.            *)
(*                                                                          *)
(* Steps of the code without a log line (the accept loop's head, the read   *)
(* loop's head, a read that ends in an error, the TLS handshake, entering   *)
(* the teardown) are taken lazily: composed in front of the next logged     *)
(* step of the same goroutine (action composition).  They only advance      *)
(* that goroutine's own control state, so delaying them loses no behaviour. *)
EXTENDS Gldap, Json, IOUtils, SequencesExt

Tr == ndJsonDeserialize(IOEnv.OBS)     \* one record per trace: [id |-> Nat, procs |-> Seq(Seq(event))]

CONSTANTS TrackFrontier,   \* record, per trace, the deepest point the replay reached (to explain a rejection; costs time)
          MaxDev      \* search bound: how often the replay may depart from the logged order (see RNext)
VARIABLES tid,    \* the trace being replayed
          pos,    \* [process index -> index of its next event]
          dev     \* number of times the replay has not taken the earliest logged line that was ready
rvars == <<vars, tid, pos, dev>>

Procs == 1..Len(Tr[tid].procs)
Q(p) == Tr[tid].procs[p]
Pending(p) == pos[p] <= Len(Q(p))
Ev(p) == Q(p)[pos[p]]
AllConsumed == \A p \in Procs : ~Pending(p)

RInit == /\ Init
         /\ tid \in 1..Len(Tr)
         /\ pos = [p \in 1..Len(Tr[tid].procs) |-> 1]
         /\ dev = 0

Keep == UNCHANGED <<tid, pos, dev>>
Same == UNCHANGED vars
\* everything logged before line m has been consumed
Barrier(m) == \A q \in Procs : Pending(q) => Ev(q).seq >= m
ById(id) == {c \in Conns : cid[c] = id}

--------------------------------------------------------------------------
(* unlogged steps, per goroutine *)
\* (an address that does not validate fails before the first gate: the failing RunListen has no line then)
RunSilent == RunLoopHead \/ RunAcceptClosed \/ RunAcceptTempErr \/ (ListenFails /\ RunListen)
\* a read that dispatches nothing: EOF, shutdown deadline, malformed frame
ConnSilent(c) == \/ ConnHead(c) \/ ConnHandshake(c)
                 \/ (ConnRead(c) /\ dispatched' = dispatched /\ afterUnbind' = afterUnbind)
\* zero to five steps of A (the chain stops at the first stutter, so a sequence of k steps is found along one path only)
Upto5(A) == LET U1 == UNCHANGED rvars \/ A
                U2 == UNCHANGED rvars \/ (A \cdot U1)
                U3 == UNCHANGED rvars \/ (A \cdot U2)
                U4 == UNCHANGED rvars \/ (A \cdot U3)
            IN  UNCHANGED rvars \/ (A \cdot U4)
\* A preceded by the unlogged steps of its own goroutine
AfterRun(A) == Upto5(RunSilent /\ Keep) \cdot A
AfterConn(c, A) == Upto5(ConnSilent(c) /\ Keep) \cdot A

--------------------------------------------------------------------------
(* one logged event *)
IsGate(e, k) == e.ev = "gate" /\ e.k = k
InConns(c) == c \in Conns
RealEOF == {"eof", "eof-midframe", "rst"}
Step(p, d) ==
  LET e == Ev(p)
      Consume == pos' = [pos EXCEPT ![p] = @ + 1] /\ UNCHANGED tid /\ dev' = dev + d
  IN
  CASE e.ev = "env_begin" -> Same /\ Consume
    \* ---- Run goroutine
    [] e.ev = "run_call" -> RunStart /\ Consume
    [] IsGate(e, "run.pre_listen") -> run = "prelisten" /\ Same /\ Consume
    [] IsGate(e, "run.post_listen") -> RunListen /\ Consume           \* (logged whether net.Listen succeeded or not)
    [] IsGate(e, "run.accepted") -> AfterRun(nextID = e.conn /\ (\E c \in Conns : RunAccept(c)) /\ Consume)
    [] IsGate(e, "run.registered") -> ~ctxDone /\ nextID = e.conn /\ RunRegister /\ Consume
    [] e.ev = "run_ret" -> AfterRun(run = "returned" /\ runRes = e.val /\ Same /\ Consume)
    [] e.ev = "ready" -> ready /\ Same /\ Consume
    \* ---- connection goroutine
    [] IsGate(e, "conn.read") ->
         \E c \in ById(e.conn) : AfterConn(c, nreq[c] = e.req /\ ConnRead(c) /\ (dispatched'[c] # dispatched[c]) /\ Consume)
    \* the gate in front of conn.close() (which waits for the handlers, then closes the socket), and the one behind it
    [] IsGate(e, "conn.teardown.pre_close") -> \E c \in ById(e.conn) : AfterConn(c, ConnExit(c) /\ Consume)
    [] IsGate(e, "conn.teardown.post_close") -> \E c \in ById(e.conn) : (TWait(c) /\ Keep) \cdot (TClose(c) /\ Consume)
    [] e.ev = "onclose_in" ->
         \/ \E c \in ById(e.conn) : cpc[c] = "tonclose" /\ Same /\ Consume
         \/ run = "register" /\ ctxDone /\ nextID = e.conn /\ Same /\ Consume
    [] e.ev = "onclose_out" ->
         \/ \E c \in ById(e.conn) : TOnClose(c) /\ Consume
         \/ run = "register" /\ ctxDone /\ nextID = e.conn /\ RunRegister /\ Consume
    [] IsGate(e, "conn.teardown.pre_done") -> \E c \in ById(e.conn) : TDone(c) /\ Consume
    \* ---- handlers (hstart is logged by the handler itself: the dispatch has happened by then)
    [] e.ev = "hstart" -> (InConns(e.c) => cid[e.c] = e.conn /\ e.req \in Reqs /\ hs[e.c][e.req] # "none") /\ Same /\ Consume
    [] e.ev = "hunbind" -> (InConns(e.c) => cid[e.c] = e.conn /\ afterUnbind[e.c]) /\ Same /\ Consume
    [] e.ev = "hend" ->
         \E c \in ById(e.conn) : e.req \in Reqs /\ (IF hs[c][e.req] = "inline" THEN ConnInlineReturn(c) ELSE HReturn(c, e.req)) /\ Consume
    [] e.ev = "hpanic" ->
         \E c \in ById(e.conn) : e.req \in Reqs /\
            (CASE e.k = "unbind" -> Same [] hs[c][e.req] = "inline" -> ConnInlinePanic(c) [] OTHER -> HPanic(c, e.req)) /\ Consume
    \* ---- Stop callers
    \* the call is logged before Stop runs: its first step (the read lock) is taken lazily, in front of the first gate
    [] e.ev = "stop_call" -> Same /\ Consume
    [] IsGate(e, "stop.closed") -> \E s \in Stoppers : (StopBegin(s) /\ Keep) \cdot (StopClose(s) /\ Consume)
    [] IsGate(e, "stop.cancelled") -> (\E s \in Stoppers : StopCancel(s)) /\ Consume
    [] e.ev = "stop_ret" -> StopWait(e.s) /\ Consume
    \* ---- clients
    [] e.ev = "dial" -> (IF e.val = "ok" THEN DialAs(e.c, e.k) ELSE (DialAs(e.c, e.k) \/ Same)) /\ Consume
    [] e.ev = "send" -> Send(e.c, e.k) /\ Consume
    [] e.ev = "close" -> (ClientClose(e.c) \/ (net[e.c] # "open" /\ Same)) /\ Consume
    [] e.ev = "stopreading" -> StopReading(e.c) /\ Consume
    [] e.ev = "timeout" -> ReadDeadline(e.c) /\ Consume
    \* the client saw the server's FIN / RST (a TLS alert in front of it says nothing about the socket yet)
    [] e.ev = "eof" -> ((InConns(e.c) /\ e.val \in RealEOF) => sock[e.c] = "closed") /\ Same /\ Consume
    [] OTHER -> Same /\ Consume

\* lines that only assert something that stays true once it is true: consuming them as soon as they hold loses nothing
Passive(p) == LET e == Ev(p) IN
  \/ e.ev = "env_begin"
  \/ e.ev = "hstart" /\ (InConns(e.c) => cid[e.c] = e.conn /\ e.req \in Reqs /\ hs[e.c][e.req] # "none")
  \/ e.ev = "hunbind" /\ (InConns(e.c) => cid[e.c] = e.conn /\ afterUnbind[e.c])
  \/ e.ev = "eof" /\ ((InConns(e.c) /\ e.val \in RealEOF) => sock[e.c] = "closed")
  \/ e.ev = "ready" /\ ready
Ripe(p) == Pending(p) /\ Barrier(Ev(p).after)
\* The logged order is almost always a possible order, so the search follows it: among the ready lines the one logged
\* first is tried as it is; taking another one counts as a departure, and at most MaxDev departures are explored (the
\* driver raises MaxDev for the traces that were not accepted, in the end to "unbounded": nothing is lost, only found sooner)
RNext == /\ Tr[tid].id \notin TLCGet(1)
         /\ LET eager == {p \in Procs : Ripe(p) /\ Passive(p)}
                \* (an assertion line whose condition does not hold yet cannot be taken now: it is no candidate)
                ripe == {p \in Procs : Ripe(p) /\ (Ev(p).ev \in {"hstart", "hunbind", "eof", "ready"} => Passive(p))}
                first == CHOOSE p \in ripe : \A q \in ripe : Ev(p).seq <= Ev(q).seq IN
            IF eager # {} THEN Step(CHOOSE p \in eager : \A q \in eager : p <= q, 0)
            ELSE /\ ripe # {}
                 /\ \/ Step(first, 0)
                    \/ LET d == IF ENABLED Step(first, 0) THEN 1 ELSE 0 IN      \* (not taking a line that cannot be taken is no departure)
                       dev + d <= MaxDev /\ \E p \in ripe \ {first} : Step(p, d)

\* ---- acceptance: register 1 holds the ids of the traces that have been replayed to the end; register 2, per trace,
\* the largest number of events consumed so far and which events were pending there (to explain a rejection)
Total == LET RECURSIVE Sum(_) Sum(p) == IF p = 0 THEN 0 ELSE (pos[p] - 1) + Sum(p - 1) IN Sum(Len(Tr[tid].procs))
PendingEvents == {[p |-> p, ev |-> Ev(p).ev, k |-> Ev(p).k, conn |-> Ev(p).conn, req |-> Ev(p).req, c |-> Ev(p).c, seq |-> Ev(p).seq, ripe |-> Ripe(p)] : p \in {q \in Procs : Pending(q)}}
Record ==
  /\ IF AllConsumed THEN TLCSet(1, TLCGet(1) \cup {Tr[tid].id}) ELSE TRUE
  /\ LET best == TLCGet(2) IN
     IF ~TrackFrontier THEN TRUE
     ELSE IF Tr[tid].id \notin DOMAIN best \/ best[Tr[tid].id].n < Total
       THEN TLCSet(2, [x \in (DOMAIN best) \cup {Tr[tid].id} |-> IF x = Tr[tid].id THEN [n |-> Total, pending |-> PendingEvents] ELSE best[x]])
       ELSE TRUE
\* a trace that has been accepted needs no further exploration
NotYetAccepted == Record /\ Tr[tid].id \notin TLCGet(1)
Report == /\ PrintT("ACCEPTED " \o ToJson(SetToSeq(TLCGet(1))))
          /\ PrintT("FRONTIER " \o ToJson(SetToSeq({[id |-> x, n |-> TLCGet(2)[x].n, pending |-> SetToSeq(TLCGet(2)[x].pending)] :
                                                      x \in {y \in DOMAIN TLCGet(2) : y \notin TLCGet(1)}})))
ASSUME TLCSet(1, {}) /\ TLCSet(2, <<>>)

\* Gldap's invariants, evaluated in every state of every observed execution
ObservedInvariants == /\ ReqIDsInOrder /\ NothingAfterUnbind /\ Alive /\ OnCloseAtMostOnce /\ OnCloseAfterHandlers
                      /\ SocketClosedAfterHandlers /\ ConnIDsUnique /\ QuiescentAfterStop /\ ReadyImpliesListening
=============================================================================
