----------------------------- MODULE GldapTrace -----------------------------
(* Trace validation of life-cycle scenarios.  Each trace (from a "reset" to  *)
(* an "end" line of IOEnv.OBS) is one TLC-generated behaviour of Scen.tla    *)
(* replayed on a real gldap server: the environment actions the harness      *)
(* performed, "expect" lines carrying the observable events the model        *)
(* predicts after each of them, and the events actually observed (handler    *)
(* entry / exit, OnClose, EOF at the client, Stop / Run returning, probes).  *)
(* The monitors are the properties C06 - C12, C17 evaluated on the observed  *)
(* execution; ObservedIsPredicted is the refinement check on the projection  *)
(* to observable events.                                                     *)
EXTENDS Naturals, Sequences, FiniteSets, TLC, Json, IOUtils

T == ndJsonDeserialize(IOEnv.OBS)
Tags == {T[i].c : i \in 1..Len(T)} \ {"", "?"}
Observable == {"hstart", "hunbind", "hend", "eof", "onclose_out", "stop_ret", "run_ret", "ready"}
Key(e) == <<e.ev, e.c, (IF e.ev \in {"hstart", "hunbind", "hend"} THEN e.i ELSE 0), (IF e.ev = "run_ret" THEN "" ELSE e.s)>>
KeyX(e) == <<e.val, e.c, e.i, e.s>>      \* of an "expect" line

VARIABLES l,        \* last consumed line
          exp, obs, \* predicted / observed observable events of this scenario (bags of keys)
          held,     \* [Tags -> set of frame indexes whose handler the harness is holding]
          connOf,   \* [Tags -> ConnectionID seen by handlers of that connection (0: none yet)]
          ocCount,  \* [Tags -> completed OnClose calls]
          ocIDs,    \* set of connection IDs passed to OnClose so far
          eofSeen,  \* [Tags -> BOOLEAN] the client has seen the server close the connection
          quiet,    \* [Tags -> BOOLEAN] a failing Write is no surprise: the client closed / stopped reading, or Stop was called
          kinds,    \* [Tags -> set of <<i, kind>>] frames sent
          wrote,    \* set of <<c, i>>: handlers whose Write returned without error
          got,      \* set of <<c, i>>: final responses the client received
          bad       \* name of the first order monitor that failed at this line, or ""
tvars == <<l, exp, obs, held, connOf, ocCount, ocIDs, eofSeen, quiet, kinds, wrote, got, bad>>

Fresh == /\ exp = <<>> /\ obs = <<>> /\ held = [c \in Tags |-> {}] /\ connOf = [c \in Tags |-> 0]
         /\ ocCount = [c \in Tags |-> 0] /\ ocIDs = {} /\ bad = ""
         /\ eofSeen = [c \in Tags |-> FALSE] /\ quiet = [c \in Tags |-> FALSE] /\ kinds = [c \in Tags |-> {}] /\ wrote = {} /\ got = {}
\* a trace starts at a "reset" line (already consumed); "leak" and "proc_exit" lines are one-line traces
InitT == (l \in {i \in 1..Len(T) : T[i].ev = "reset"} \/ l \in {i - 1 : i \in {j \in 1..Len(T) : T[j].ev \in {"leak", "proc_exit"}}}) /\ Fresh

e == T[l + 1]
InTags(c) == c \in Tags
\* bags of keys as functions key -> count (exp and obs; <<>> is the empty bag)
BagAdd(b, k) == IF k \in DOMAIN b THEN [b EXCEPT ![k] = @ + 1] ELSE b @@ (k :> 1)
\* the order monitors, evaluated on the line being consumed
Check(ev) ==
  CASE ev.ev = "hstart" /\ ev.req # ev.i -> "C06_RequestIDIsArrivalPosition"
    [] ev.ev = "hstart" /\ ev.conn <= 0 -> "C09_ConnectionIDPositive"
    [] ev.ev = "hstart" /\ InTags(ev.c) /\ connOf[ev.c] # 0 /\ connOf[ev.c] # ev.conn -> "C09_ConnectionIDStable"
    [] ev.ev = "hstart" /\ InTags(ev.c) /\ (\E d \in Tags : d # ev.c /\ connOf[d] = ev.conn) -> "C09_ConnectionIDUnique"
    [] ev.ev = "hunbind" /\ InTags(ev.c) /\ connOf[ev.c] # 0 /\ connOf[ev.c] # ev.conn -> "C09_ConnectionIDStable"
    [] ev.ev = "connid_changed" -> "C09_ConnectionIDStable"       \* a request kept by the application reports another ID later on
    [] ev.ev = "hend" /\ InTags(ev.c) /\ connOf[ev.c] # 0 /\ connOf[ev.c] # ev.conn -> "C09_ConnectionIDStable"     \* asked again when the handler returns
    [] ev.ev = "eof" /\ ev.held # <<>> -> "C08_SocketClosedOnlyAfterHandlersReturned"
    [] ev.ev = "hstart" /\ InTags(ev.c) /\ eofSeen[ev.c] -> "C08_SocketClosedOnlyAfterHandlersReturned"     \* a handler starts on a connection the server already closed
    [] ev.ev = "hend" /\ ev.val = "err" /\ InTags(ev.c) /\ ~quiet[ev.c] -> "C08_SocketClosedOnlyAfterHandlersReturned"   \* its Write failed although the client is there and reading
    [] ev.ev = "recv" /\ InTags(ev.c) /\ <<ev.i, "unbind">> \in kinds[ev.c] -> "C10_NoResponseToUnbind"
    [] ev.ev = "recv" /\ InTags(ev.c) /\ ev.conn > 0 /\ ev.m = 0 /\ ev.val # "" /\ ~(\E k \in {"op", "starttls"} : <<ev.i, k>> \in kinds[ev.c]) -> "C04_ResponseWithoutRequest"
    [] ev.ev = "onclose_in" /\ InTags(ev.c) /\ held[ev.c] # {} -> "C08_OnCloseOnlyAfterHandlersReturned"
    [] ev.ev = "onclose_in" /\ ev.conn \in ocIDs -> "C08_OnCloseOncePerConnection"
    [] ev.ev = "onclose_in" /\ InTags(ev.c) /\ ev.val # "assumed" /\ connOf[ev.c] # 0 /\ connOf[ev.c] # ev.conn -> "C09_OnCloseIDMatches"
    [] ev.ev = "stop_ret" /\ ev.n # 0 -> "C12_NoHandlerRunningWhenStopReturns"
    [] ev.ev = "stop_ret" /\ ev.m # 0 -> "C12_OnCloseCompletedWhenStopReturns"
    [] ev.ev = "probe" /\ ev.n # 1 -> "C12_PortCanBeBoundAgain"
    [] ev.ev = "probe" /\ ev.m # 1 -> "C12_ConnectionsRefusedAfterStop"
    [] ev.ev = "run_ret" /\ ev.val # "nil" /\ ev.s # "expect-error" -> "C11_RunReturnsNil"
    [] ev.ev = "run_ret" /\ ev.val = "nil" /\ ev.s = "expect-error" -> "C17_RunFailsWhenItCannotListen"
    [] ev.ev = "ready" /\ ev.val = "dial-failed" -> "C17_ReadyImpliesListening"
    [] ev.ev = "ready_sample" /\ ev.k = "pre_listen" /\ ev.val = "true" -> "C17_NotReadyBeforeListening"
    [] ev.ev = "tlsup" /\ ev.val # "ok" /\ InTags(ev.c) /\ ~quiet[ev.c] -> "C13_HandshakeSeesFirstClientByte"   \* (a stopping server abandons the upgrade)
    [] ev.ev = "hend" /\ ev.val = "tls-err" /\ InTags(ev.c) /\ ~quiet[ev.c] -> "C13_HandshakeSeesFirstClientByte"
    [] ev.ev = "plain_after_upgrade" /\ InTags(ev.c) /\ ~quiet[ev.c] -> "C13_EverythingIsTLSAfterUpgrade"    \* (a stopping server abandons the upgrade and says so in the clear)
    [] ev.ev \in {"hstart", "recv"} /\ ev.i = 900 -> "C13_PlaintextBehindStartTLSNeverServed"      \* the frame the harness glued behind a StartTLS request
    [] ev.ev = "hstart" /\ InTags(ev.c) /\ (\E j \in held[ev.c] : j # ev.i /\ <<j, "starttls">> \in kinds[ev.c]) -> "C13_NothingDispatchedWhileStartTLSHandlerRuns"
    [] ev.ev = "proc_exit" -> "C07_ProcessSurvives"
    [] ev.ev = "leak" /\ (ev.n > 0 \/ ev.m > 0) -> "C08_NothingLeaks"
    [] ev.ev = "garbage" -> "C05_StreamIsWholeMessages"
    [] OTHER -> ""

NextT ==
  \* (a "leak" / "proc_exit" line is a trace of its own: it is consumed from the line in front of it, whatever that line is)
  /\ l < Len(T) /\ e.ev # "reset" /\ (l = 0 \/ T[l].ev \notin {"end", "leak", "proc_exit"} \/ e.ev \in {"leak", "proc_exit"}) /\ l' = l + 1
  /\ bad' = Check(e)
  /\ exp' = IF e.ev = "expect" THEN BagAdd(exp, KeyX(e)) ELSE exp
  /\ obs' = IF e.ev \in Observable THEN BagAdd(obs, Key(e)) ELSE obs
  /\ held' = IF e.ev = "hstart" /\ e.val = "hold" /\ InTags(e.c) THEN [held EXCEPT ![e.c] = @ \cup {e.i}]
             ELSE IF e.ev = "release" /\ InTags(e.c) THEN [held EXCEPT ![e.c] = @ \ {e.i}] ELSE held
  /\ connOf' = IF e.ev \in {"hstart", "hunbind"} /\ InTags(e.c) /\ connOf[e.c] = 0 THEN [connOf EXCEPT ![e.c] = e.conn] ELSE connOf
  /\ ocCount' = IF e.ev = "onclose_out" /\ InTags(e.c) THEN [ocCount EXCEPT ![e.c] = @ + 1] ELSE ocCount
  /\ ocIDs' = IF e.ev = "onclose_in" THEN ocIDs \cup {e.conn} ELSE ocIDs
  /\ eofSeen' = IF e.ev = "eof" /\ InTags(e.c) THEN [eofSeen EXCEPT ![e.c] = TRUE] ELSE eofSeen
  /\ quiet' = IF e.ev \in {"close", "stopreading", "timeout"} /\ InTags(e.c) THEN [quiet EXCEPT ![e.c] = TRUE]
              ELSE IF e.ev = "stop_call" THEN [c \in Tags |-> TRUE] ELSE quiet
  /\ wrote' = IF e.ev = "hend" /\ e.val = "" /\ e.k # "unbind" THEN wrote \cup {<<e.c, e.i>>} ELSE wrote
  /\ got' = IF e.ev = "recv" THEN got \cup {<<e.c, e.i>>} ELSE got
  /\ kinds' = IF e.ev = "send" /\ InTags(e.c) THEN [kinds EXCEPT ![e.c] = @ \cup {<<e.i, e.k>>}] ELSE kinds

\* ---- invariants
OrderMonitors == bad = "" \/ Print(<<"MONITOR", bad, l, T[l]>>, FALSE)
\* refinement on the projection to observable events: at the end of a scenario the bag of observed events is
\* the bag the model predicted (nothing missing: C06 C08 C10 C11 ...; nothing extra: C10 C08 ...)
AtEnd == l >= 1 /\ T[l].ev = "end"
Missing == {k \in DOMAIN exp : k \notin DOMAIN obs \/ obs[k] < exp[k]}
Extra   == {k \in DOMAIN obs : k \notin DOMAIN exp \/ exp[k] < obs[k]}
MissingOf(k) == {x \in Missing : x[1] = k}
ExtraOf(k) == {x \in Extra : x[1] = k}
NoMissing(k) == ~AtEnd \/ MissingOf(k) = {} \/ Print(<<"MISSING", k, l, MissingOf(k)>>, FALSE)
NoExtra(k)   == ~AtEnd \/ ExtraOf(k) = {} \/ Print(<<"EXTRA", k, l, ExtraOf(k)>>, FALSE)
\* ... and they were there before the harness took its next environment action (it waits for them: 3 s at first)
EnvEvents == {"send", "release", "close", "dial", "stop_call", "stopreading", "emfile", "timeout"}
AtEnv == l >= 1 /\ T[l].ev \in EnvEvents
NotLate(k) == ~AtEnv \/ MissingOf(k) = {} \/ Print(<<"LATE", k, l, MissingOf(k)>>, FALSE)
Late_hstart  == NotLate("hstart")      \* a request was not dispatched while earlier handlers were still running (C06)
Late_hend    == NotLate("hend")
Late_eof     == NotLate("eof")
Late_onclose == NotLate("onclose_out")
Late_stopret == NotLate("stop_ret")    \* Stop did not return although nothing held it (C11)
Late_runret  == NotLate("run_ret")
Missing_hstart  == NoMissing("hstart")        \* a request that should have been dispatched was not (C06)
Missing_hend    == NoMissing("hend")
Missing_hunbind == NoMissing("hunbind")       \* the unbind handler did not run (C10)
Missing_eof     == NoMissing("eof")           \* the server did not close the connection (C08 C10)
Missing_onclose == NoMissing("onclose_out")   \* OnClose was not called (C08)
Missing_stopret == NoMissing("stop_ret")      \* Stop did not return (C11)
Missing_runret  == NoMissing("run_ret")       \* Run did not return (C11)
Missing_ready   == NoMissing("ready")         \* Ready never became true (C17)
Extra_hstart    == NoExtra("hstart")          \* something was dispatched that must not be (C10: after Unbind)
Extra_hend      == NoExtra("hend")
Extra_hunbind   == NoExtra("hunbind")         \* the unbind handler ran more than once (C10)
Extra_eof       == NoExtra("eof")
Extra_onclose   == NoExtra("onclose_out")     \* OnClose called more than once / for nothing (C08)
Extra_stopret   == NoExtra("stop_ret")
Extra_runret    == NoExtra("run_ret")
Extra_ready     == NoExtra("ready")           \* Ready although the model says the listener never existed (C17)
\* C04 / C05 / C13: every response a handler wrote without error has reached the client by the end of the scenario
\* (unless the client went away, stopped reading, or the server was being stopped)
Unanswered == {k \in wrote : k \notin got /\ InTags(k[1]) /\ ~quiet[k[1]]}
EveryWriteArrives == ~AtEnd \/ Unanswered = {} \/ Print(<<"UNANSWERED", l, Unanswered>>, FALSE)
\* every line of every trace is consumed
NotStuck == (l < Len(T) /\ T[l + 1].ev # "reset" /\ (l = 0 \/ T[l].ev \notin {"end", "leak", "proc_exit"})) => ENABLED NextT
=============================================================================
