----------------------------- MODULE MuxTrace -----------------------------
(* Conformance of the real Mux with Mux.tla: each line of IOEnv.OBS is one *)
(* route table built in the real code through the public registration API, *)
(* with, per request sent over a real connection, the handlers that ran    *)
(* and the reply received.  Every line is an independent one-step trace:   *)
(* an initial state; the invariants are the C03 monitors.                  *)
EXTENDS Mux, Json, IOUtils

Obs == ndJsonDeserialize(IOEnv.OBS)
VARIABLE l
Init == l \in 1..Len(Obs) /\ routes = <<>> /\ def = 0 /\ unb = 0
Next == UNCHANGED <<l, routes, def, unb>>

Bad(what, i, exp, got) == Print(<<"MISMATCH", what, l, i, exp, got>>, FALSE)

\* the handler labels the harness reports: [k |-> "r"|"d"|"u", n |-> index or generation]
Expected(o, rq) == LET s == Serve(o.routes, o.def, rq) IN
  CASE s.k = "route" -> <<[k |-> "r", n |-> s.idx]>>
    [] s.k = "default" -> <<[k |-> "d", n |-> s.gen]>>
    [] OTHER -> <<>>

\* exactly the first matching route's handler (or the current default) ran, exactly once
HandlerConforms ==
  LET o == Obs[l] IN \A i \in 1..Len(o.obs) :
     LET e == o.obs[i] IN
     e.ran = Expected(o, e.req) \/ Bad("handlers", i, Expected(o, e.req), e.ran)
\* nothing matched and no default: one refusal, right message id, code 53, the operation's response tag
RefusalConforms ==
  LET o == Obs[l] IN \A i \in 1..Len(o.obs) :
     LET e == o.obs[i]  s == Serve(o.routes, o.def, e.req) IN
     s.k = "refuse" =>
        \/ (e.nfinal = 1 /\ e.msgid_ok /\ e.tag = s.tag /\ e.code = s.code)
        \/ Bad("refusal", i, s, e)
\* a handled request gets exactly the one answer its handler wrote; nothing is dropped or answered twice
AnsweredOnce ==
  LET o == Obs[l] IN \A i \in 1..Len(o.obs) :
     LET e == o.obs[i] IN (e.nfinal = 1 /\ e.msgid_ok) \/ Bad("answers", i, 1, e)
\* the unbind route in force is the last one registered, and it runs once
UnbindConforms ==
  LET o == Obs[l] IN
     o.unbran = (IF o.unb > 0 THEN <<[k |-> "u", n |-> o.unb]>> ELSE <<>>) \/ Bad("unbind", 0, o.unb, o.unbran)
===========================================================================
