------------------------------ MODULE Dir19Gen ------------------------------
EXTENDS Dir19
ASSUME GenOK
ASSUME PrintT(<<"VECTORS", Cardinality(Vectors), "BINDS", Cardinality(Binds)>>)
=============================================================================
