----------------------------- MODULE Dir19Trace -----------------------------
(* C19 conformance monitor over observations of the real test directory.   *)
EXTENDS Dir19
\* ---- conformance monitor: each line of IOEnv.OBS is a directory state set through the real
\* Set* methods with, per bind and transport, the result code a real client received
Obs == ndJsonDeserialize(IOEnv.OBS)
VARIABLE l
InitT == l \in 1..Len(Obs) /\ DirInit(<<>>, <<>>)
NextT == UNCHANGED <<l, users, groups, allowAnon, reply, tokenGroups>>
BindConforms ==
  LET o == Obs[l] IN \A i \in 1..Len(o.binds) :
     LET b == o.binds[i]  exp == BindResult(o.users, o.anon, b.dn, b.pw) IN
     (b.plain = exp /\ b.tls = exp /\ b.starttls = exp)
        \/ Print(<<"MISMATCH", l, i, b, exp>>, FALSE)
OnlyTwoCodes ==
  LET o == Obs[l] IN \A i \in 1..Len(o.binds) :
     {o.binds[i].plain, o.binds[i].tls, o.binds[i].starttls} \subseteq {Success, InvalidCredentials}
=============================================================================
