----------------------------- MODULE RespTrace -----------------------------
(* C04 conformance: each line of IOEnv.OBS is one request for which a real *)
(* handler built the scripted responses through the public API and wrote   *)
(* them; frames are what the harness's strict LDAPMessage parser read.     *)
EXTENDS Resp, Json, IOUtils
Obs == ndJsonDeserialize(IOEnv.OBS)
VARIABLE l
InitT == l \in 1..Len(Obs) /\ RInit
NextT == UNCHANGED <<l, cur, nopt, nset, wire, cstep>>
o == Obs[l]
E == ExpAll(o.resps)      \* the frames the scripted responses put on the wire (a response may be written more than once)
Bad(what, i, exp, got) == Print(<<"MISMATCH", what, l, i, exp, got>>, FALSE)
\* one well-formed frame per Write, in order, nothing else, each with the request's message id
FramesConform == (o.nframes = Len(E) /\ o.parse_ok /\ \A i \in 1..Len(o.frames) : o.frames[i].msgid_ok)
                    \/ Bad("frames", 0, Len(E), o.nframes)
\* protocolOp tag: the constructor's, or the application code given
TagConforms == \A i \in 1..Len(o.frames) : i > Len(E) \/
                 o.frames[i].tag = E[i].tag \/ Bad("tag", i, E[i].tag, o.frames[i].tag)
\* result code, matched DN, diagnostic message: exactly what options and setters set (unset fields are free)
ResultConforms == \A i \in 1..Len(o.frames) : i > Len(E) \/
   LET b == E[i]  f == o.frames[i] IN
   b.kind = "entry" \/
   ( /\ (b.setcode => f.code = b.code) /\ (b.setmatched => f.matched = b.matched) /\ (b.setdiag => f.diag = b.diag) )
   \/ Bad("result", i, b, f)
\* entries: DN, the WithAttributes map (any order) followed by the AddAttribute calls in order
SetOf(s) == {s[i] : i \in 1..Len(s)}
EntryConforms == \A i \in 1..Len(o.frames) : i > Len(E) \/
   LET b == E[i]  f == o.frames[i] IN
   b.kind # "entry" \/
   ( /\ f.dn = "dnsym" /\ Len(f.attrs) = Len(b.map) + Len(b.added)
     /\ SetOf(SubSeq(f.attrs, 1, Len(b.map))) = SetOf(b.map)
     /\ SubSeq(f.attrs, Len(b.map) + 1, Len(f.attrs)) = b.added )
   \/ Bad("entry", i, b, f)
\* controls: those set on Bind / SearchDone responses, in order; none otherwise
ControlsConform == \A i \in 1..Len(o.frames) : i > Len(E) \/
   LET b == E[i]  f == o.frames[i] IN
   f.ctls = [k \in 1..Len(b.ctls) |-> Decode(Wire(b.ctls[k]))] \/ Bad("controls", i, b.ctls, f.ctls)
=============================================================================
