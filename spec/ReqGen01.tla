------------------------------ MODULE ReqGen01 ------------------------------
EXTENDS ReqGen
ASSUME ndJsonSerialize(IOEnv.OUT, SetToSeq(ReqVecs))
ASSUME PrintT(<<"VECTORS", Cardinality(ReqVecs)>>)
=============================================================================
