----------------------------- MODULE ScenScript -----------------------------
(* Scripted scenarios: the environment actions are given (IOEnv.SCRIPT, a    *)
(* JSON sequence); TLC executes Gldap.tla along the script in quiescent      *)
(* normal form and so computes the observable events the model predicts     *)
(* after every action - the oracle for scenarios that are too deep to be     *)
(* found by exhaustive enumeration (hundreds of pipelined requests, many     *)
(* connections).  Conns and Stoppers are sets of strings here.               *)
EXTENDS Scen

\* one line per script; all scripts of a file are executed in one TLC run (one initial state each)
Scripts == ndJsonDeserialize(IOEnv.SCRIPT)
VARIABLE sidx
Script == Scripts[sidx].script
EnvS0 ==
  /\ NEnv < Len(Script)
  /\ LET x == Script[NEnv + 1] IN
     CASE x.a = "run"   -> RunStart /\ Log(E("run", "", 0, "", "", FALSE)) /\ UNCHANGED plan
       [] x.a = "stop"  -> StopBegin(x.s) /\ Log(E("stop", "", 0, "", x.s, FALSE)) /\ UNCHANGED plan
       [] x.a = "dial"  -> DialAs(x.c, IF x.k = "" THEN "valid" ELSE x.k) /\ Log(E("dial", x.c, 0, IF x.k = "" THEN "valid" ELSE x.k, "", FALSE)) /\ UNCHANGED plan
       [] x.a = "close" -> ClientClose(x.c) /\ Log(E("close", x.c, 0, "", "", FALSE)) /\ UNCHANGED plan
       [] x.a = "stopreading" -> StopReading(x.c) /\ Log(E("stopreading", x.c, 0, "", "", FALSE)) /\ UNCHANGED plan
       [] x.a = "timeout" -> ReadDeadline(x.c) /\ Log(E("timeout", x.c, 0, "", "", FALSE)) /\ UNCHANGED plan
       [] x.a = "send"  -> /\ Send(x.c, x.k) /\ Log(E("send", x.c, sent[x.c] + 1, x.k, "", x.hold))
                           /\ plan' = [plan EXCEPT ![x.c][sent[x.c] + 1] = x.hold]
       [] x.a = "release" -> /\ plan[x.c][x.i] /\ hs[x.c][x.i] \in {"running", "inline"} /\ plan' = [plan EXCEPT ![x.c][x.i] = FALSE]
                             /\ Log(E("release", x.c, x.i, "", "", FALSE)) /\ UNCHANGED vars
       [] x.a = "panic" -> /\ plan[x.c][x.i] /\ hs[x.c][x.i] = "running" /\ HPanic(x.c, x.i) /\ plan' = [plan EXCEPT ![x.c][x.i] = FALSE]
                           /\ Log(E("panic", x.c, x.i, "", "", FALSE))
EnvS == EnvS0 /\ UNCHANGED pinline
ScriptNext == IF ENABLED ServerQ THEN ServerQ ELSE EnvS
ScriptSpec == SInit /\ sidx \in 1..Len(Scripts) /\ [][ScriptNext /\ UNCHANGED sidx]_<<svars, sidx>>
ScriptDone == ~ENABLED ServerQ /\ (NEnv = Len(Script) \/ ~ENABLED EnvS)
EmitScript == ~ScriptDone \/ PrintT(ToJson([behaviour |-> hist, complete |-> NEnv = Len(Script), script |-> sidx]))
=============================================================================
