------------------------------ MODULE TdTlsTrace ------------------------------
(* C18 on the real test directory (testdirectory.Start with and without      *)
(* WithMTLS): one line per connection attempt of a client kind; "served" =   *)
(* a bind on that connection got an LDAP answer.                             *)
EXTENDS TlsRule, Naturals, Sequences, TLC, Json, IOUtils
Obs == ndJsonDeserialize(IOEnv.OBS)
VARIABLE l
InitT == l \in 1..Len(Obs)
NextT == UNCHANGED l
o == Obs[l]
OnlySatisfyingClientsAreServed == (o.served = HandshakeOKFor(o.mode, o.kind)) \/ Print(<<"MISMATCH", l, o>>, FALSE)
==============================================================================
