------------------------------- MODULE Dir20 -------------------------------
(* C20 (and the history part of C19): behaviours of the Directory state     *)
(* machine over a small pool, used (a) for exhaustive / random generation   *)
(* of operation sequences that the harness replays on the real test         *)
(* directory and (b) by Dir20Trace to validate what was observed.           *)
EXTENDS Directory, Json, IOUtils, SequencesExt

CONSTANTS Depth,              \* length of generated operation sequences
          Focus               \* "all" | "bind": operation alphabet ("bind": what can change a bind's outcome)

\* pool: u1, u2 exist initially; n1, n2 can be added; g1 is a group; mz never exists
InitUsers  == << Entry("u1", <<Attr("a1", <<"v1">>), Attr("a2", <<"v2">>), Attr("password", <<"p">>)>>),
                 Entry("u2", <<Attr("a1", <<"v1">>)>>),
                 Entry("ub", <<Attr("password", <<"pb">>)>>) >>       \* a bystander no operation touches: a client keeps binding as it
InitGroups == << Entry("g1", <<Attr("member", <<"u1">>)>>) >>
UserPool   == {"u1", "u2", "n1", "n2"}
GroupPool  == {"g1"}

AddAttrs == { <<>>, <<Attr("a2", <<"v1">>)>>,
              <<Attr("password", <<"p">>), Attr("a3", <<"v2", "v1">>), Attr("a1", <<"v1">>)>> }   \* unsorted on purpose
Ch(op, n, vs) == [op |-> op, name |-> n, vals |-> vs]
ChangeLists == { <<Ch("add", "a1", <<"v2">>)>>, <<Ch("add", "a3", <<"v1", "v2">>)>>, <<Ch("delete", "a1", <<>>)>>,
                 <<Ch("replace", "a1", <<"v3">>)>>,
                 <<Ch("add", "a2", <<"v1">>), Ch("delete", "a2", <<>>)>>,
                 <<Ch("replace", "a2", <<"v1">>), Ch("add", "a2", <<"v2">>)>>,
                 <<Ch("replace", "password", <<"q">>)>>,
                 \* several changes of different attributes in one request, after a delete (slice positions shift)
                 <<Ch("delete", "a1", <<>>), Ch("replace", "a2", <<"v3">>)>>,
                 <<Ch("delete", "a2", <<>>), Ch("add", "password", <<"q">>), Ch("add", "a3", <<"v1">>)>>,
                 <<Ch("add", "a3", <<"v2">>), Ch("delete", "a1", <<>>), Ch("replace", "password", <<"q">>)>>,
                 \* the same attribute twice in one request: delete it, then add it again
                 <<Ch("delete", "a1", <<>>), Ch("add", "a1", <<"v2">>)>>,
                 <<Ch("delete", "a2", <<>>), Ch("add", "a2", <<"v3", "v1">>), Ch("add", "a2", <<"v2">>)>> }
TG1 == [s \in {"S1"} |-> <<Entry("t1", <<Attr("a1", <<"v1">>)>>), Entry("t2", <<>>)>>]
\* the property only speaks of replace on entries that have the attribute: generate only those
HasAttr(dn, n) == \E i \in Indices(users, dn) : IndexOfLast(users[i].attrs, n, Len(users[i].attrs)) > 0
ReplaceOK(dn, chs) == Indices(users, dn) = {} \/ \A k \in 1..Len(chs) : chs[k].op = "replace" => HasAttr(dn, chs[k].name)

VARIABLE hist
vars20 == <<users, groups, allowAnon, reply, tokenGroups, hist>>
Ev(op, dn, as, chs, pw, b) == [op |-> op, dn |-> dn, attrs |-> as, chs |-> chs, pw |-> pw, b |-> b]

Init20 == DirInit(InitUsers, InitGroups) /\ hist = <<>>
AddAttrsBind == { <<Attr("a2", <<"v1">>)>>, <<Attr("password", <<"p">>), Attr("a1", <<"v1">>)>> }
NextAll ==
     \/ \E dn \in {"u1", "n1", "n2"}, as \in AddAttrs : Add(dn, as) /\ hist' = Append(hist, Ev("add", dn, as, <<>>, "", FALSE))
     \/ \E dn \in {"u1", "n1", "mz", "pu1"}, chs \in ChangeLists :
           ReplaceOK(dn, chs) /\ Modify(dn, chs) /\ hist' = Append(hist, Ev("modify", dn, <<>>, chs, "", FALSE))
     \/ \E dn \in {"u1", "n1", "g1", "mz", "pu1"} : Delete(dn) /\ hist' = Append(hist, Ev("delete", dn, <<>>, <<>>, "", FALSE))
     \/ SetUsers(InitUsers) /\ hist' = Append(hist, Ev("setusers", "init", <<>>, <<>>, "", FALSE))
     \/ SetUsers(<<>>) /\ hist' = Append(hist, Ev("setusers", "none", <<>>, <<>>, "", FALSE))
     \/ SetGroups(<<>>) /\ hist' = Append(hist, Ev("setgroups", "none", <<>>, <<>>, "", FALSE))
     \/ \E b \in BOOLEAN : SetAnon(b) /\ hist' = Append(hist, Ev("setanon", "", <<>>, <<>>, "", b))
     \/ SetTokenGroups(TG1) /\ hist' = Append(hist, Ev("settokengroups", "tg1", <<>>, <<>>, "", FALSE))
     \/ SetTokenGroups(<<>>) /\ hist' = Append(hist, Ev("settokengroups", "none", <<>>, <<>>, "", FALSE))
     \/ \E dn \in {"u1", "n1", "pu1"}, pw \in {"p", "q", ""} : Bind(dn, pw) /\ hist' = Append(hist, Ev("bind", dn, <<>>, <<>>, pw, FALSE))
NextBind ==
     \/ \E dn \in {"u1", "n1"}, as \in AddAttrsBind : Add(dn, as) /\ hist' = Append(hist, Ev("add", dn, as, <<>>, "", FALSE))
     \/ \E dn \in {"u1"}, chs \in {<<Ch("replace", "password", <<"q">>)>>, <<Ch("delete", "password", <<>>)>>,
                                     <<Ch("delete", "password", <<>>), Ch("add", "password", <<"q">>)>>} :     \* the usual way to change a password
           ReplaceOK(dn, chs) /\ Modify(dn, chs) /\ hist' = Append(hist, Ev("modify", dn, <<>>, chs, "", FALSE))
     \/ \E dn \in {"u1", "n1", "pu1"} : Delete(dn) /\ hist' = Append(hist, Ev("delete", dn, <<>>, <<>>, "", FALSE))
     \/ SetUsers(InitUsers) /\ hist' = Append(hist, Ev("setusers", "init", <<>>, <<>>, "", FALSE))
     \/ SetUsers(<<>>) /\ hist' = Append(hist, Ev("setusers", "none", <<>>, <<>>, "", FALSE))
     \/ SetAnon(TRUE) /\ hist' = Append(hist, Ev("setanon", "", <<>>, <<>>, "", TRUE))
     \/ \E dn \in {"u1", "n1", "pu1"}, pw \in {"p", "q", ""} : Bind(dn, pw) /\ hist' = Append(hist, Ev("bind", dn, <<>>, <<>>, pw, FALSE))
Next20 == Len(hist) < Depth /\ (IF Focus = "bind" THEN NextBind ELSE NextAll)
Spec20 == Init20 /\ [][Next20]_vars20

\* emitted once per complete behaviour (exhaustive search and -simulate alike)
Emit == Len(hist) < Depth \/ PrintT(ToJson([behaviour |-> hist]))

\* ---- C20 over the model
\* Add never creates a second user with the same DN (pool DNs that were unique stay unique)
UniqueUserDNs == \A dn \in UserPool : Cardinality(Indices(users, dn)) <= 1
\* reply codes are the ones the property names
CodesOK == reply.code \in {Success, NoSuchObject, EntryAlreadyExists, InvalidCredentials}
\* action properties: what each operation must do to what a search returns
AddFound == [][\A dn \in UserPool :
                 (reply'.op = "add" /\ hist' # hist /\ hist'[Len(hist')].dn = dn) =>
                    IF reply'.code = Success THEN Len(SearchUsers(dn)') = 1 /\ SearchUsers(dn) = <<>>
                    ELSE reply'.code = EntryAlreadyExists /\ users' = users /\ SearchUsers(dn) # <<>>]_vars20
DeleteGone == [][\A dn \in UserPool \cup GroupPool \cup {"mz"} :
                 (reply'.op = "delete" /\ hist' # hist /\ hist'[Len(hist')].dn = dn) =>
                    IF reply'.code = Success THEN Len(SearchUsers(dn)') + Len(SearchGroups(dn)') < Len(SearchUsers(dn)) + Len(SearchGroups(dn))
                    ELSE reply'.code = NoSuchObject /\ SearchUsers(dn) = <<>> /\ SearchGroups(dn) = <<>> /\ UNCHANGED <<users, groups>>]_vars20
ModifyMissing == [][(reply'.op = "modify" /\ hist' # hist /\ Indices(users, hist'[Len(hist')].dn) = {}) =>
                       reply'.code = NoSuchObject /\ users' = users]_vars20
=============================================================================
