------------------------------ MODULE Helpers ------------------------------
(* Exported helpers and constructors of gldap (request.go ConvertString /   *)
(* readLength, sid.go, entry.go NewEntry, the New*Response / NewControl*    *)
(* constructors and the Mux registration methods).  Property C16: every     *)
(* call has one of two outcomes - a value or an error - never a panic.      *)
EXTENDS Integers, Sequences, FiniteSets, TLC

--------------------------------------------------------------------------
(* ConvertString.  A byte string is described by its form:                 *)
(*   tag    : "oct" (0x04) | "gen" (0x1B) | "other" | "none" (empty input) *)
(*   len    : "none" (nothing after the tag) | "short" | "long" | "indef"  *)
(*            (0x80) | "ff" (0xFF)                                         *)
(*   nb     : number of length octets announced by a long form (1..9)      *)
(*   have   : how many of them are present                                 *)
(*   n      : content length class                                         *)
\* (the last three are declared lengths near the largest a signed 64-bit integer holds; the content behind them is short)
LenClasses == {0, 1, 127, 128, 255, 256, 65535, 65536, -1, -2, -3}     \* -1: 2^63-1, -2: 2^63-10, -3: 2^62 (eight length octets)
CS(tag, len, nb, have, n) == [tag |-> tag, len |-> len, nb |-> nb, have |-> have, n |-> n]
MinOctets(n) == IF n < 0 THEN 8 ELSE IF n < 256 THEN 1 ELSE IF n < 65536 THEN 2 ELSE 3
CSInputs ==
     {CS("none", "none", 0, 0, 0)}
  \cup {CS(t, "none", 0, 0, 0) : t \in {"oct", "gen", "other"}}
  \cup {CS(t, "short", 0, 0, n) : t \in {"oct", "gen", "other"}, n \in {0, 1, 127}}
  \cup UNION {{CS(t, "long", nb, nb, n) : t \in {"oct", "gen"}, n \in {m \in LenClasses : MinOctets(m) <= nb}} : nb \in 1..8}
  \cup {CS(t, "long", nb, have, 0) : t \in {"oct", "gen"}, nb \in 1..9, have \in 0..8}     \* truncated (have < nb) or too many (nb = 9)
  \cup {CS(t, l, 0, 0, n) : t \in {"oct", "gen"}, l \in {"indef", "ff"}, n \in {0, 1}}
WellFormedCS(x) == x.tag \in {"oct", "gen"} /\ (x.len = "short" \/ (x.len = "long" /\ x.have = x.nb /\ x.nb <= 8))
\* outcome: "ok" (the result is everything after the length octets) or "err"
CSOutcome(x) ==
  CASE x.tag = "none" -> "err"
    [] x.tag = "other" -> "err"
    [] x.len = "none" -> "err"
    [] x.len = "ff" -> "err"
    [] x.len = "indef" -> "ok"
    [] x.len = "short" -> "ok"
    [] x.len = "long" -> IF x.nb > 8 THEN "err" ELSE IF x.have < x.nb THEN "err" ELSE "ok"
\* ConvertString(a, b, ...) fails as a whole when one argument fails
CSCall(xs) == IF \E i \in 1..Len(xs) : CSOutcome(xs[i]) = "err" THEN "err" ELSE "ok"
CSCalls == {<<x>> : x \in CSInputs} \cup {<<x, y>> : x \in {CS("oct", "short", 0, 0, 1), CS("gen", "long", 2, 2, 256)}, y \in CSInputs}
\* the inversion part of C16: a well-formed wrapping always converts
WrapConverts == \A x \in CSInputs : WellFormedCS(x) => CSOutcome(x) = "ok"

--------------------------------------------------------------------------
(* SID helpers: SIDBytes(r, a) is 8 bytes; SIDBytesToString needs 8 bytes  *)
(* plus 4 per announced sub-authority                                      *)
SIDRevs == {0, 1, 255}
SIDAuths == {0, 1, 65535}
SIDInputs == {[kind |-> "roundtrip", r |-> r, a |-> a, len |-> 8, subs |-> 0, have |-> 0] : r \in SIDRevs, a \in SIDAuths}
        \cup {[kind |-> "bytes", r |-> 1, a |-> 5, len |-> k, subs |-> 0, have |-> 0] : k \in 0..8}
        \cup {[kind |-> "bytes", r |-> 1, a |-> 5, len |-> 8, subs |-> s, have |-> h] : s \in 1..3, h \in 0..12}
        \* sub-authority counts up to the largest the count octet can announce (the announced length passes 255 at 62)
        \cup UNION {{[kind |-> "bytes", r |-> 1, a |-> 5, len |-> 8, subs |-> s, have |-> h] : h \in {0, 3, 8, (4 * s) - 1, 4 * s}} : s \in {15, 61, 62, 63, 64, 127, 128, 255}}
SIDOutcome(x) == IF x.len < 8 THEN "err" ELSE IF x.have < 4 * x.subs THEN "err" ELSE "ok"

--------------------------------------------------------------------------
(* Constructors with options.  An option token sets one field of the       *)
(* option family it belongs to and is ignored by every other family; nil   *)
(* options are skipped.                                                    *)
OptTokens == {"nil", "code0", "code53", "app7", "app30", "diag", "matched", "attrs0", "attrs2",
              "crit", "ctlval", "grace0", "grace5", "expire0", "expire9", "err0", "err8", "err9", "errbig", "errhuge", "errmax",
              "label", "basedn", "filter", "scope2", "writer", "readtimeout", "onclose"}
Constructors == {"NewResponse", "NewBindResponse", "NewExtendedResponse", "NewSearchDoneResponse", "NewSearchResponseEntry",
                 "NewModifyResponse", "NewControlString", "NewControlStringEmpty", "NewControlManageDsaIT", "NewControlMicrosoftNotification",
                 "NewControlMicrosoftServerLinkTTL", "NewControlMicrosoftShowDeleted", "NewControlBeheraPasswordPolicy", "NewControlPaging",
                 "NewMux", "NewServer", "NewEntry", "NewEntryAttribute",
                 "Mux.Bind", "Mux.Search", "Mux.ExtendedOperation", "Mux.Modify", "Mux.Add", "Mux.Delete", "Mux.Unbind", "Mux.DefaultRoute",
                 "Mux.BindNil", "Mux.SearchNil", "Mux.ExtendedOperationNil", "Mux.ModifyNil", "Mux.AddNil", "Mux.DeleteNil", "Mux.UnbindNil", "Mux.DefaultRouteNil",
                 "Server.RouterNil"}
\* last-wins fold of the behera option fields (-1 = unset)
RECURSIVE Fold3(_, _)
Fold3(opts, acc) ==
  IF Len(opts) = 0 THEN acc
  ELSE LET o == Head(opts) IN
       Fold3(Tail(opts),
             CASE o = "grace0" -> [acc EXCEPT !.g = 0] [] o = "grace5" -> [acc EXCEPT !.g = 5]
               [] o = "expire0" -> [acc EXCEPT !.e = 0] [] o = "expire9" -> [acc EXCEPT !.e = 9]
               [] o = "err0" -> [acc EXCEPT !.c = 0] [] o = "err8" -> [acc EXCEPT !.c = 8]
               [] o = "err9" -> [acc EXCEPT !.c = 9] [] o = "errbig" -> [acc EXCEPT !.c = 300]
               [] o = "errhuge" -> [acc EXCEPT !.c = 400] [] o = "errmax" -> [acc EXCEPT !.c = 500]      \* 2^64-2, 2^64-1 (the argument is a uint)
               [] OTHER -> acc)
Behera(opts) == Fold3(opts, [g |-> -1, e |-> -1, c |-> -1])
Neg1 == -1
BeheraOutcome(opts) ==
  LET b == Behera(opts) IN
  IF (b.g # Neg1 /\ b.e # Neg1) \/ (b.g # Neg1 /\ b.c # Neg1) \/ (b.e # Neg1 /\ b.c # Neg1) \/ b.c > 8 THEN "err" ELSE "ok"
\* C14: the constructor never yields more than one of grace / expire / error
BeheraAtMostOne == \A o1 \in OptTokens, o2 \in OptTokens, o3 \in OptTokens :
                      LET b == Behera(<<o1, o2, o3>>) IN
                      BeheraOutcome(<<o1, o2, o3>>) = "ok" => Cardinality({f \in {"g", "e", "c"} : b[f] # Neg1}) <= 1 /\ b.c <= 8
ConsOutcome(c, opts) ==
  CASE c = "NewControlStringEmpty" -> "err"
    [] c = "NewControlBeheraPasswordPolicy" -> BeheraOutcome(opts)
    [] c \in {"Mux.BindNil", "Mux.SearchNil", "Mux.ExtendedOperationNil", "Mux.ModifyNil", "Mux.AddNil", "Mux.DeleteNil",
              "Mux.UnbindNil", "Mux.DefaultRouteNil", "Server.RouterNil"} -> "err"
    [] OTHER -> "ok"
OptSeqs(k) == UNION {[1..n -> OptTokens] : n \in 0..k}

--------------------------------------------------------------------------
(* NewEntry: attribute names come out sorted whatever the map order; an    *)
(* attribute's Values and ByteValues stay equal element by element         *)
EntryMaps == {<<>>, <<"b">>, <<"b", "a">>, <<"c", "a", "b">>, <<"B", "a", "C", "b">>, <<"cn", "CN", "Cn">>}   \* insertion orders of the names
\* byte order of the names used above (upper case sorts before lower case)
NameRank == [n \in {"B", "C", "CN", "Cn", "a", "b", "c", "cn"} |->
               CASE n = "B" -> 1 [] n = "C" -> 2 [] n = "CN" -> 3 [] n = "Cn" -> 4 [] n = "a" -> 5 [] n = "b" -> 6 [] n = "c" -> 7 [] n = "cn" -> 8]
LessEq(a, b) == NameRank[a] <= NameRank[b]
RECURSIVE InsertSorted(_, _)
InsertSorted(s, x) == IF Len(s) = 0 THEN <<x>> ELSE IF LessEq(x, Head(s)) THEN <<x>> \o s ELSE <<Head(s)>> \o InsertSorted(Tail(s), x)
\* case-folded rank (a deterministic case-insensitive order is also "ordered by name")
FoldRank == [n \in DOMAIN NameRank |-> CASE n \in {"a"} -> 1 [] n \in {"B", "b"} -> 2 [] n \in {"C", "c"} -> 3 [] n \in {"CN", "Cn", "cn"} -> 4]
IsSortedBy(s, rank) == \A i \in 1..(Len(s) - 1) : rank[s[i]] <= rank[s[i + 1]]
SameElements(s, t) == Len(s) = Len(t) /\ {s[i] : i \in 1..Len(s)} = {t[i] : i \in 1..Len(t)}
OrderedByName(order, names) == SameElements(order, names) /\ (IsSortedBy(order, NameRank) \/ IsSortedBy(order, FoldRank))
RECURSIVE SortNames(_)
SortNames(s) == IF Len(s) = 0 THEN <<>> ELSE InsertSorted(SortNames(Tail(s)), Head(s))

--------------------------------------------------------------------------
(* trivial state machine so that TLC has something to run: one state per   *)
(* vector class; the invariants are the design-level statements            *)
VARIABLE hstep
HInit == hstep = 0
HNext == hstep < 1 /\ hstep' = hstep + 1
HelpersDesign == WrapConverts /\ BeheraAtMostOne
==========================================================================
