------------------------------- MODULE Writer -------------------------------
(* The shared buffered writer of a connection (response.go ResponseWriter    *)
(* .Write: lock; write the whole packet into the bufio.Writer; flush;        *)
(* unlock - every ResponseWriter of a connection shares writer and lock).    *)
(* Property C05.  A frame <<w, k>> is written as ChunksPerFrame chunks: the  *)
(* bufio.Writer passes data on to the socket whenever its buffer is full,    *)
(* so a frame larger than the buffer reaches the wire in several pieces.     *)
EXTENDS Naturals, Sequences, FiniteSets, TLC

CONSTANTS Writers,          \* handlers writing on one connection
          FramesPerWriter,
          ChunksPerFrame,   \* >= 2: frames larger than the write buffer
          BufChunks,        \* capacity of the bufio buffer, in chunks
          UseLock,          \* TRUE: Write holds the connection's writer lock
          FlushInsideLock   \* TRUE: the flush happens before the lock is released

VARIABLES pc,       \* [Writers -> "idle" | "put" | "flush" | "release" | "done"]
          k,        \* [Writers -> frame being written (1..FramesPerWriter)]
          c,        \* [Writers -> chunks of that frame already put]
          lock,     \* holder of the writer lock, or "free"
          buf,      \* the bufio buffer: Seq of <<w, k, chunk>>
          wire,     \* what has reached the socket: Seq of <<w, k, chunk>>
          okd,      \* set of <<w, k>>: Write calls that returned nil
          fl        \* [Writers -> the buffer contents a flush in progress is writing out]
wvars == <<pc, k, c, lock, buf, wire, okd, fl>>
Free == "free"

WInit == /\ pc = [w \in Writers |-> "idle"] /\ k = [w \in Writers |-> 1] /\ c = [w \in Writers |-> 0]
         /\ lock = Free /\ buf = <<>> /\ wire = <<>> /\ okd = {} /\ fl = [w \in Writers |-> <<>>]

Acquire(w) == /\ pc[w] = "idle" /\ k[w] <= FramesPerWriter
              /\ IF UseLock THEN lock = Free /\ lock' = w ELSE UNCHANGED lock
              /\ pc' = [pc EXCEPT ![w] = "put"] /\ c' = [c EXCEPT ![w] = 0]
              /\ UNCHANGED <<k, buf, wire, okd, fl>>
\* bufio.Writer.Write: append to the buffer; a full buffer is written out first
PutChunk(w) == /\ pc[w] = "put" /\ c[w] < ChunksPerFrame
               /\ IF Len(buf) >= BufChunks
                    THEN wire' = wire \o buf /\ buf' = <<<<w, k[w], c[w] + 1>>>>
                    ELSE buf' = Append(buf, <<w, k[w], c[w] + 1>>) /\ UNCHANGED wire
               /\ c' = [c EXCEPT ![w] = @ + 1]
               /\ pc' = [pc EXCEPT ![w] = IF c[w] + 1 = ChunksPerFrame THEN (IF FlushInsideLock THEN "flush" ELSE "release") ELSE "put"]
               /\ UNCHANGED <<k, lock, okd, fl>>
\* bufio.Writer.Flush is not atomic: it hands the buffered bytes to the socket, then resets the buffer
\* (two unsynchronised flushes write the same bytes twice)
Flush(w) == /\ pc[w] = "flush" /\ fl' = [fl EXCEPT ![w] = buf] /\ pc' = [pc EXCEPT ![w] = "flush2"]
            /\ UNCHANGED <<k, c, lock, buf, wire, okd>>
FlushCommit(w) == /\ pc[w] = "flush2" /\ wire' = wire \o fl[w]
                  /\ buf' = IF Len(buf) >= Len(fl[w]) THEN SubSeq(buf, Len(fl[w]) + 1, Len(buf)) ELSE <<>>
                  /\ fl' = [fl EXCEPT ![w] = <<>>]
                  /\ pc' = [pc EXCEPT ![w] = IF FlushInsideLock THEN "release" ELSE "done"]
                  /\ UNCHANGED <<k, c, lock, okd>>
Release(w) == /\ pc[w] = "release"
              /\ IF UseLock THEN lock' = Free ELSE UNCHANGED lock
              /\ pc' = [pc EXCEPT ![w] = IF FlushInsideLock THEN "done" ELSE "flush"]
              /\ UNCHANGED <<k, c, buf, wire, okd, fl>>
Return(w) == /\ pc[w] = "done" /\ okd' = okd \cup {<<w, k[w]>>} /\ k' = [k EXCEPT ![w] = @ + 1]
             /\ pc' = [pc EXCEPT ![w] = "idle"] /\ UNCHANGED <<c, lock, buf, wire, fl>>
WNext == \E w \in Writers : Acquire(w) \/ PutChunk(w) \/ Flush(w) \/ FlushCommit(w) \/ Release(w) \/ Return(w)
WSpec == WInit /\ [][WNext]_wvars

--------------------------------------------------------------------------
(* C05 *)
\* position i of the wire starts a frame: chunks 1..ChunksPerFrame of one <<w, k>> follow contiguously
WholeAt(i) == /\ i + ChunksPerFrame - 1 <= Len(wire)
              /\ \A j \in 0..(ChunksPerFrame - 1) : wire[i + j] = <<wire[i][1], wire[i][2], j + 1>>
\* the wire is a concatenation of whole frames followed by at most one partial frame (of the lock holder)
RECURSIVE WholeFrom(_)
WholeFrom(i) == IF i > Len(wire) THEN TRUE
                ELSE IF WholeAt(i) THEN WholeFrom(i + ChunksPerFrame)
                ELSE /\ \A j \in i..Len(wire) : wire[j] = <<wire[i][1], wire[i][2], j - i + 1>>       \* a prefix of one frame
                     /\ Len(wire) - i + 1 < ChunksPerFrame
WireIsWholeFrames == WholeFrom(1)
FramesOnWire == {<<wire[i][1], wire[i][2]>> : i \in {j \in 1..Len(wire) : wire[j][3] = ChunksPerFrame}}
\* nothing is duplicated, and once everybody is done nothing is lost
NoDup == \A i, j \in 1..Len(wire) : (i # j) => wire[i] # wire[j]
AllDone == \A w \in Writers : pc[w] = "idle" /\ k[w] > FramesPerWriter
NoLoss == AllDone => (FramesOnWire = okd /\ buf = <<>>)
\* one writer's frames appear in the order it wrote them
PerWriterOrder == \A i, j \in 1..Len(wire) : (i < j /\ wire[i][1] = wire[j][1]) => wire[i][2] <= wire[j][2]
=============================================================================
