---------------------------- MODULE HelpersTrace ----------------------------
(* C16 conformance: each line of IOEnv.OBS is one call of an exported       *)
(* helper / constructor made under recover(), with what came back.          *)
EXTENDS Helpers, Json, IOUtils
Obs == ndJsonDeserialize(IOEnv.OBS)
VARIABLE l
InitT == l \in 1..Len(Obs) /\ hstep = 0
NextT == UNCHANGED <<l, hstep>>
o == Obs[l]
Bad(what, exp) == Print(<<"MISMATCH", what, l, exp, o>>, FALSE)
\* never a panic, whatever the arguments
NoPanic == o.outcome \in {"ok", "err"} \/ Bad("panic", "ok|err")
\* ... and the outcome is the documented one
OutcomeConforms ==
  CASE o.k = "convert" -> o.outcome = CSCall(o.args) \/ Bad("convert", CSCall(o.args))
    [] o.k = "sid" -> o.outcome = SIDOutcome(o.x) \/ Bad("sid", SIDOutcome(o.x))
    [] o.k = "cons" -> o.outcome = ConsOutcome(o.c, o.opts) \/ Bad("cons", ConsOutcome(o.c, o.opts))
    [] OTHER -> TRUE
\* ConvertString inverts the wrapping; SIDBytesToString(SIDBytes(r, a)) = "S-r-a"
ValueConforms ==
  CASE o.k = "convert" /\ o.outcome = "ok" -> o.inverted \/ Bad("convert value", TRUE)
    [] o.k = "sid" /\ o.x.kind = "roundtrip" -> (o.outcome = "ok" /\ o.str = <<"S", o.x.r, o.x.a>>) \/ Bad("sid value", <<"S", o.x.r, o.x.a>>)
    [] o.k = "entry" -> (OrderedByName(o.order, o.names) /\ o.stable /\ o.values_equal) \/ Bad("entry", SortNames(o.names))
    [] OTHER -> TRUE
=============================================================================
