------------------------------ MODULE RespGen ------------------------------
EXTENDS Resp, Json, IOUtils, SequencesExt
CONSTANT GenSets     \* setter sequences up to this length
Seqs(S, n) == UNION {[1..k -> S] : k \in 0..n}
RS(k, os, ss) == [kind |-> k, opts |-> os, sets |-> ss]
\* single responses: every kind x option sequences (<= MaxOpts) x well-typed setter sequences (<= GenSets)
Singles == {rs \in {RS(k, os, ss) : k \in Kinds, os \in Seqs(OptToks, MaxOpts), ss \in Seqs(SetToks, GenSets)} : WellTyped(rs)}
\* scripts of several responses for one request (search entries / references / done, intermediate + final, ...)
Small == { RS("entry", <<Tok("attrs", 0, "", <<EAttr("n1", <<"s1">>)>>)>>, <<>>), RS("entry", <<>>, <<Tok("addattr", 0, "n3", <<"s2", "s1">>)>>),
           RS("general", <<Tok("app", 19, "", <<>>), Tok("code", 0, "", <<>>)>>, <<>>),
           RS("general", <<Tok("app", 25, "", <<>>)>>, <<Tok("diag", 0, "s1", <<>>)>>),
           RS("done", <<Tok("code", 1, "", <<>>)>>, <<Tok("ctls", 0, "", <<C("paging", "", FALSE, 2, "k1", Unset, Unset, Unset, "")>>)>>),
           RS("extended", <<>>, <<Tok("code", 2, "", <<>>)>>), RS("bind", <<Tok("code", 0, "", <<>>)>>, <<>>), RS("modify", <<>>, <<>>) }
Scripts == {<<a, b>> : a \in Small, b \in Small} \cup {<<a, b, c>> : a \in Small, b \in Small, c \in Small}
\* one response object written twice or three times, with setters before, between and after the writes
W == Tok("write", 0, "", <<>>)
Of(k) == {t \in SetToks : HasSetter(k, t.o)}
Rewrites == UNION {{RS(k, <<>>, <<W, b>>) : b \in Of(k)} \cup {RS(k, <<>>, <<a, W, b>>) : a \in Of(k), b \in Of(k)}
                   \cup {RS(k, <<Tok("code", 1, "", <<>>)>>, <<a, W, b, W>>) : a \in Of(k), b \in Of(k)} : k \in Kinds}
Vectors == {[resps |-> <<rs>>] : rs \in Singles} \cup {[resps |-> s] : s \in Scripts} \cup {[resps |-> <<rs>>] : rs \in Rewrites}
GNext == UNCHANGED rvars
ASSUME ndJsonSerialize(IOEnv.OUT, SetToSeq(Vectors))
ASSUME PrintT(<<"VECTORS", Cardinality(Vectors)>>)
=============================================================================
