------------------------------ MODULE ReqTrace ------------------------------
(* C01 conformance: each line of IOEnv.OBS is one request (serialised by    *)
(* the harness's own BER encoder from the tree EncodeRequest gave) sent to  *)
(* a real gldap server, with the requests its handlers saw.                 *)
EXTENDS Req, Json, IOUtils
Obs == ndJsonDeserialize(IOEnv.OBS)
VARIABLE l
InitT == l \in 1..Len(Obs) /\ cstep = 0
NextT == UNCHANGED <<l, cstep>>
o == Obs[l]
Bad(what, exp, got) == Print(<<"MISMATCH", what, l, exp, got>>, FALSE)
\* a supported, well-formed request is delivered exactly once, as a message of the matching kind carrying what was sent
Delivered == ~Supported(o.r) \/ o.seen = <<Expected(o.r)>> \/ Bad("delivered", Expected(o.r), o.seen)
\* ... and answered by its handler (the decode did not drop it)
Answered == ~Supported(o.r) \/ o.r.op = "unbind" \/ o.answered \/ Bad("answered", TRUE, o.answered)
\* an unsupported operation or a bind that is not version 3 never reaches a handler as anything
NotDelivered == Supported(o.r) \/ (o.seen = <<>> /\ ~o.answered) \/ Bad("not delivered", <<>>, o.seen)
=============================================================================
