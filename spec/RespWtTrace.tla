----------------------------- MODULE RespWtTrace -----------------------------
(* C04 with WithWriteTimeout (one absolute write deadline per connection,    *)
(* armed at accept time).  Each line of IOEnv.OBS is one search for which    *)
(* the handler wrote six responses, the second far larger than the socket    *)
(* buffers, to a client that read nothing until the deadline had expired and *)
(* then read on: "writes" = what each Write returned, "frames" = the whole    *)
(* frames the client's strict parser extracted.  A response whose Write      *)
(* returned nil arrives as one well-formed frame; nothing else does; the     *)
(* stream may only end inside a frame behind a Write that failed.            *)
EXTENDS Naturals, Sequences, FiniteSets, TLC, Json, IOUtils
Obs == ndJsonDeserialize(IOEnv.OBS)
VARIABLE l
InitT == l \in 1..Len(Obs)
NextT == UNCHANGED l
o == Obs[l]
OKTags == {o.writes[i].tag : i \in {j \in 1..Len(o.writes) : o.writes[j].ok}}
FrameTags == {o.frames[i] : i \in 1..Len(o.frames)}
Bad(what, a, b) == Print(<<"MISMATCH", what, l, a, b>>, FALSE)
AcceptedWritesArrive == OKTags \subseteq FrameTags \/ Bad("written but not received", OKTags \ FrameTags, o.frames)
NothingElseArrives == (FrameTags \subseteq OKTags /\ Len(o.frames) = Cardinality(FrameTags) /\ o.ids_ok) \/ Bad("received but not written / twice / foreign id", FrameTags \ OKTags, o.frames)
StreamIsFrames == (o.garbage = "" /\ (o.tailcut => \E i \in 1..Len(o.writes) : ~o.writes[i].ok)) \/ Bad("garbage", o.garbage, o.tailcut)
\* per-writer order: the frames arrive in the order their Writes were made
InOrder == \A i, j \in 1..Len(o.frames) : i < j =>
              \A a, b \in 1..Len(o.writes) : (o.writes[a].tag = o.frames[i] /\ o.writes[b].tag = o.frames[j]) => a < b
==============================================================================
