------------------------------- MODULE CtlGen -------------------------------
EXTENDS Ctl, Json, IOUtils, SequencesExt
CONSTANT ListLen      \* 2: all singles and pairs; 3: + triples over a reduced set
Reduced == {c \in Controls : c.t \in {"paging", "behera", "string", "managedsa"} /\ c.size # 1 /\ c.grace # 1 /\ c.expire # 1
                             /\ c.cookie # "k2" /\ c.val # "k2" /\ c.oid # "o2" /\ c.error \in {Unset, 0, 8}}
Lists == {<<>>} \cup {<<c>> : c \in Controls} \cup {<<a, b>> : a \in Controls, b \in Controls}
         \cup (IF ListLen >= 3 THEN {<<a, b, c>> : a \in Reduced, b \in Reduced, c \in Reduced} ELSE {})
Vectors == {[k |-> "list", cs |-> l] : l \in Lists} \cup {[k |-> "behera", a |-> a] : a \in BeheraArgs}
ASSUME ndJsonSerialize(IOEnv.OUT, SetToSeq(Vectors))
ASSUME PrintT(<<"VECTORS", Cardinality(Vectors), "CONTROLS", Cardinality(Controls)>>)
=============================================================================
