----------------------------- MODULE HelpersGen -----------------------------
EXTENDS Helpers, Json, IOUtils, SequencesExt
CONSTANT OptLen     \* option sequences of up to OptLen tokens
Vectors ==
     {[k |-> "convert", args |-> xs] : xs \in CSCalls}
  \cup {[k |-> "sid", x |-> x] : x \in SIDInputs}
  \cup {[k |-> "cons", c |-> c, opts |-> os] : c \in Constructors, os \in OptSeqs(OptLen)}
  \cup {[k |-> "entry", names |-> m] : m \in EntryMaps}
ASSUME ndJsonSerialize(IOEnv.OUT, SetToSeq(Vectors))
ASSUME PrintT(<<"VECTORS", Cardinality(Vectors)>>)
=============================================================================
