-------------------------------- MODULE Resp --------------------------------
(* Building and writing responses (request.go New*Response, response.go,    *)
(* response_options.go, entry.go).  Property C04.                           *)
(*                                                                          *)
(* A response is built by a constructor with options, changed by setters    *)
(* and written; the handler may write several responses for one request.    *)
(* The spec keeps, next to the value of every field, whether the handler    *)
(* set it (fields never set are "don't care" on the wire).                  *)
EXTENDS Ctl

Codes == {0, 1, 2}            \* result code symbols: 0, a seed-chosen mid value, 32767
Apps  == {0, 1, 5, 7, 9, 11, 19, 24, 25, 30}   \* application codes (the protocolOp tag on the wire)
Txt   == {"", "s1", "s2"}     \* strings (s1 / s2: seed-chosen, long or binary)
Kinds == {"general", "bind", "extended", "done", "entry", "modify"}
KindTag(k) == CASE k = "bind" -> 1 [] k = "extended" -> 24 [] k = "done" -> 5 [] k = "entry" -> 4 [] k = "modify" -> 7 [] OTHER -> 24

\* option / setter tokens: [o, n (number), s (string), l (list)]
Tok(o, n, s, l) == [o |-> o, n |-> n, s |-> s, l |-> l]
EAttr(n, vs) == [name |-> n, vals |-> vs]
AttrMaps  == {<<>>, <<EAttr("n1", <<"s1">>)>>, <<EAttr("n1", <<>>), EAttr("n2", <<"s1", "s2", "">>)>>}     \* WithAttributes (a map: unordered)
CtlLists  == {<<>>, <<C("paging", "", FALSE, 2, "k1", Unset, Unset, Unset, "")>>,
              <<C("string", "o1", TRUE, 0, "", Unset, Unset, Unset, "k2"), C("managedsa", "", TRUE, 0, "", Unset, Unset, Unset, "")>>}
OptToks == {Tok("code", c, "", <<>>) : c \in Codes} \cup {Tok("app", a, "", <<>>) : a \in Apps}
           \cup {Tok("diag", 0, s, <<>>) : s \in Txt} \cup {Tok("matched", 0, s, <<>>) : s \in Txt}
           \cup {Tok("attrs", 0, "", m) : m \in AttrMaps} \cup {Tok("nil", 0, "", <<>>)}
SetToks == {Tok("code", c, "", <<>>) : c \in Codes} \cup {Tok("diag", 0, s, <<>>) : s \in Txt} \cup {Tok("matched", 0, s, <<>>) : s \in Txt}
           \cup {Tok("ctls", 0, "", l) : l \in CtlLists} \cup {Tok("addattr", 0, "n3", <<"s2", "s1">>), Tok("addattr", 0, "n1", <<>>)}
           \cup {Tok("name", 0, "s1", <<>>)}

\* which options a constructor honours (request.go doc comments)
Honours(k, o) == CASE k = "general" -> o \in {"code", "app", "diag", "matched"}
                   [] k = "modify" -> o \in {"code", "diag", "matched"}
                   [] k \in {"bind", "extended", "done"} -> o = "code"
                   [] k = "entry" -> o = "attrs"
\* which setters a response type has
HasSetter(k, o) == CASE o \in {"code", "diag", "matched"} -> TRUE        \* embedded baseResponse
                     [] o = "ctls" -> k \in {"bind", "done"}
                     [] o = "addattr" -> k = "entry"
                     [] o = "name" -> k = "extended"
                     [] o = "write" -> TRUE           \* not a setter: "write the response now and keep changing the same object"

Blank(k) == [kind |-> k, tag |-> KindTag(k), code |-> 0, matched |-> "", diag |-> "", ctls |-> <<>>, map |-> <<>>, added |-> <<>>,
             setcode |-> FALSE, setmatched |-> FALSE, setdiag |-> FALSE]
ApplyOpt(r, t) ==
  IF ~Honours(r.kind, t.o) THEN r
  ELSE CASE t.o = "code" -> [r EXCEPT !.code = t.n, !.setcode = TRUE]
         [] t.o = "app" -> [r EXCEPT !.tag = t.n]
         [] t.o = "diag" -> [r EXCEPT !.diag = t.s, !.setdiag = TRUE]
         [] t.o = "matched" -> [r EXCEPT !.matched = t.s, !.setmatched = TRUE]
         [] t.o = "attrs" -> [r EXCEPT !.map = t.l]
ApplySet(r, t) ==
  CASE t.o = "code" -> [r EXCEPT !.code = t.n, !.setcode = TRUE]
    [] t.o = "diag" -> [r EXCEPT !.diag = t.s, !.setdiag = TRUE]
    [] t.o = "matched" -> [r EXCEPT !.matched = t.s, !.setmatched = TRUE]
    [] t.o = "ctls" -> [r EXCEPT !.ctls = t.l]
    [] t.o = "addattr" -> [r EXCEPT !.added = Append(@, EAttr(t.s, t.l))]
    [] OTHER -> r
RECURSIVE FoldOpts(_, _)
FoldOpts(r, ts) == IF Len(ts) = 0 THEN r ELSE FoldOpts(ApplyOpt(r, Head(ts)), Tail(ts))
RECURSIVE FoldSets(_, _)
FoldSets(r, ts) == IF Len(ts) = 0 THEN r ELSE FoldSets(ApplySet(r, Head(ts)), Tail(ts))
\* a response spec: [kind, opts, sets] with only setters the type has
Build(rs) == FoldSets(FoldOpts(Blank(rs.kind), rs.opts), rs.sets)
\* the frames one response spec puts on the wire: a snapshot at every "write" token and the final Write
RECURSIVE Snap(_, _, _)
Snap(r, ts, acc) == IF Len(ts) = 0 THEN Append(acc, r)
                    ELSE IF Head(ts).o = "write" THEN Snap(r, Tail(ts), Append(acc, r))
                    ELSE Snap(ApplySet(r, Head(ts)), Tail(ts), acc)
Expand(rs) == Snap(FoldOpts(Blank(rs.kind), rs.opts), rs.sets, <<>>)
RECURSIVE ExpAll(_)
ExpAll(rss) == IF Len(rss) = 0 THEN <<>> ELSE Expand(Head(rss)) \o ExpAll(Tail(rss))
WellTyped(rs) == \A i \in 1..Len(rs.sets) : HasSetter(rs.kind, rs.sets[i].o)

--------------------------------------------------------------------------
(* state machine: a handler builds, changes and writes responses *)
CONSTANTS MaxOpts, MaxSets, MaxWrites
VARIABLES cur,      \* response under construction, or "none"
          nopt, nset,
          wire      \* frames written so far for this request (each the Build state at Write time)
rvars == <<cur, nopt, nset, wire, cstep>>
None == [kind |-> "none"]
RInit == cur = None /\ nopt = 0 /\ nset = 0 /\ wire = <<>> /\ cstep = 0
New(k) == cur = None /\ Len(wire) < MaxWrites /\ cur' = Blank(k) /\ nopt' = 0 /\ nset' = 0 /\ UNCHANGED wire
Opt(t) == cur # None /\ nset = 0 /\ nopt < MaxOpts /\ cur' = ApplyOpt(cur, t) /\ nopt' = nopt + 1 /\ UNCHANGED <<nset, wire>>
Set(t) == cur # None /\ nset < MaxSets /\ HasSetter(cur.kind, t.o) /\ cur' = ApplySet(cur, t) /\ nset' = nset + 1 /\ UNCHANGED <<nopt, wire>>
Write  == cur # None /\ wire' = Append(wire, cur) /\ cur' = None /\ UNCHANGED <<nopt, nset>>
\* ... or written and kept: the handler goes on changing the same object and writes it again
WriteKeep == cur # None /\ Len(wire) + 1 < MaxWrites /\ wire' = Append(wire, cur) /\ UNCHANGED <<cur, nopt, nset>>
RNext == ((\E k \in Kinds : New(k)) \/ (\E t \in OptToks : Opt(t)) \/ (\E t \in SetToks : Set(t)) \/ Write \/ WriteKeep) /\ UNCHANGED cstep
RSpec == RInit /\ [][RNext]_rvars

\* C04 at design level: the tag is the constructor's (or the application code given), controls only where
\* they can be set, and a frame is appended per Write - never changed afterwards
TagOK == \A i \in 1..Len(wire) : wire[i].tag = KindTag(wire[i].kind) \/ (wire[i].kind = "general" /\ wire[i].tag \in Apps)
CtlsOnlyWhereSettable == \A i \in 1..Len(wire) : wire[i].ctls # <<>> => wire[i].kind \in {"bind", "done"}
WritesAppendOnly == [][Len(wire') >= Len(wire) /\ SubSeq(wire', 1, Len(wire)) = wire]_rvars
==========================================================================
