-------------------------------- MODULE Scen --------------------------------
(* Scenario generator over Gldap.tla in "quiescent normal form": the        *)
(* server's own steps have priority, so an environment action (start Run,   *)
(* dial, send a frame, close, release a held handler, call Stop) is only    *)
(* taken when the system is quiescent.  The history records every           *)
(* environment action followed by the observable events the model predicts  *)
(* until the next quiescent state; the harness performs the action on the   *)
(* real server and waits for exactly those events (positive signals, no     *)
(* sleeps) before the next one.  Behaviours are emitted as JSON.            *)
EXTENDS Gldap, Json, IOUtils

CONSTANTS Depth,            \* number of environment actions per behaviour
          AllowPanic,       \* generate handler panics
          AllowStopReading, \* generate clients that stop reading
          AllowAcceptFault, \* generate temporary accept failures
          AllowSilent,      \* generate clients that never start a TLS handshake (after StartTLS) on a plain listener
          AllowTimeout      \* generate expiries of a connection's read deadline (server created WithReadTimeout)

VARIABLES hist,     \* Seq of [a |-> action/event name, c, i, k, s, hold]
          plan,     \* [Conns -> [Reqs -> BOOLEAN]] : the handler of request i on c holds until released
          pinline   \* [Conns -> [Reqs -> BOOLEAN]] : the (inline or unbind) handler of request i on c panics
svars == <<vars, hist, plan, pinline>>

E(a, c, i, k, s, h) == [a |-> a, c |-> c, i |-> i, k |-> k, s |-> s, hold |-> h]
Log(e) == hist' = Append(hist, e)

SInit == Init /\ hist = <<>> /\ plan = [c \in Conns |-> [i \in Reqs |-> FALSE]] /\ pinline = [c \in Conns |-> [i \in Reqs |-> FALSE]]

\* ---- server steps (with the events they make observable)
Quiet(a) == a /\ UNCHANGED <<hist, plan>>
\* pinline only changes when a frame is sent: every action below leaves it unchanged unless it says otherwise
ServerQ0 ==
  \/ (RunListen /\ Log(E(IF ListenFails THEN "runret" ELSE "ready", "", 0, "", "", FALSE)) /\ UNCHANGED plan)
  \/ (RunLoopHead /\ (IF ctxDone THEN Log(E("runret", "", 0, "", "", FALSE)) ELSE UNCHANGED hist) /\ UNCHANGED plan)
  \/ (RunAcceptClosed /\ Log(E("runret", "", 0, "", "", FALSE)) /\ UNCHANGED plan)
  \/ (RunAcceptTempErr /\ (IF AcceptErrorsFatal THEN Log(E("runret", "", 0, "", "", FALSE)) ELSE UNCHANGED hist) /\ UNCHANGED plan)
  \/ (RunRegister /\ (IF RegisterLocked /\ ctxDone THEN Log(E("onclose", runArg, 0, "", "", FALSE)) ELSE UNCHANGED hist) /\ UNCHANGED plan)
  \/ \E c \in Conns :
        \/ Quiet(RunAccept(c))
        \/ Quiet(ConnHandshake(c))
        \/ (ConnHead(c) /\ (IF ctxDone THEN Log(E("notice", c, 0, "", "", FALSE)) ELSE UNCHANGED hist) /\ UNCHANGED plan)
        \/ (ConnRead(c) /\ UNCHANGED plan /\
              IF ~rdl[c] /\ ~NothingToRead(c) /\ ~NeedsHandshake(c) /\ Head(inq[c]) \in {"op", "starttls"} THEN Log(E("hstart", c, nreq[c], Head(inq[c]), "", FALSE))
              ELSE IF ~rdl[c] /\ ~NothingToRead(c) /\ ~NeedsHandshake(c) /\ Head(inq[c]) = "unbind" THEN Log(E("hunbind", c, nreq[c], "unbind", "", FALSE))
              ELSE UNCHANGED hist)
        \/ (cpc[c] = "inline" /\ ~pinline[c][nreq[c]] /\ ~plan[c][nreq[c]] /\ ConnInlineReturn(c) /\ Log(E("hend", c, nreq[c], "starttls", "", FALSE)) /\ UNCHANGED plan)
        \/ (cpc[c] = "inline" /\ pinline[c][nreq[c]] /\ ConnInlinePanic(c) /\ UNCHANGED <<hist, plan>>)
        \/ Quiet(ConnExit(c)) \/ Quiet(TDone(c)) \/ Quiet(TWait(c))
        \/ (TClose(c) /\ Log(E("eof", c, 0, "", "", FALSE)) /\ UNCHANGED plan)
        \/ (TOnClose(c) /\ Log(E("onclose", c, 0, "", "", FALSE)) /\ UNCHANGED plan)
  \/ \E c \in Conns, i \in Reqs : ~plan[c][i] /\ HReturn(c, i) /\ Log(E("hend", c, i, "op", "", FALSE)) /\ UNCHANGED plan
  \/ \E s \in Stoppers : Quiet(StopClose(s)) \/ Quiet(StopCancel(s)) \/ (StopWait(s) /\ Log(E("stopret", "", 0, "", s, FALSE)) /\ UNCHANGED plan)

\* ---- environment actions
EnvQ0 ==
  \/ (RunStart /\ Log(E("run", "", 0, "", "", FALSE)) /\ UNCHANGED plan)
  \/ \E s \in Stoppers : StopBegin(s) /\ Log(E("stop", "", 0, "", s, FALSE)) /\ UNCHANGED plan
  \/ \E c \in Conns :
        \/ (\E ck \in (IF AllowSilent \/ TLSMode # "none" THEN ClientKinds ELSE {"valid"}) : DialAs(c, ck) /\ Log(E("dial", c, 0, ck, "", FALSE)) /\ UNCHANGED plan)
        \/ (ClientClose(c) /\ Log(E("close", c, 0, "", "", FALSE)) /\ UNCHANGED plan)
        \/ (AllowStopReading /\ StopReading(c) /\ Log(E("stopreading", c, 0, "", "", FALSE)) /\ UNCHANGED plan)
        \/ (AllowTimeout /\ ReadDeadline(c) /\ Log(E("timeout", c, 0, "", "", FALSE)) /\ UNCHANGED plan)
        \/ \E k \in FrameKinds, h \in BOOLEAN :
              /\ (h => k \in {"op", "starttls"}) /\ net[c] = "open"
              /\ (TLSMode # "none" => ckind[c] # "silent")         \* a silent client never sends anything
              /\ Send(c, k) /\ Log(E("send", c, sent[c] + 1, k, "", h))
              /\ plan' = [plan EXCEPT ![c][sent[c] + 1] = h]
  \/ \E c \in Conns, i \in Reqs :
        \/ (plan[c][i] /\ hs[c][i] \in {"running", "inline"} /\ plan' = [plan EXCEPT ![c][i] = FALSE] /\ Log(E("release", c, i, "", "", FALSE)) /\ UNCHANGED vars)
        \/ (AllowPanic /\ plan[c][i] /\ hs[c][i] = "running" /\ HPanic(c, i) /\ plan' = [plan EXCEPT ![c][i] = FALSE] /\ Log(E("panic", c, i, "", "", FALSE)))

ServerQ == ServerQ0 /\ UNCHANGED pinline
\* a StartTLS / Unbind frame whose (inline) handler panics
SendPanicking(c, k) == /\ k \in {"starttls", "unbind"} \cap FrameKinds /\ net[c] = "open"
                       /\ Send(c, k) /\ Log(E("send", c, sent[c] + 1, k, "panic", FALSE))
                       /\ pinline' = [pinline EXCEPT ![c][sent[c] + 1] = TRUE] /\ UNCHANGED plan
EnvQ == \/ (EnvQ0 /\ UNCHANGED pinline)
        \/ (AllowPanic /\ \E c \in Conns, k \in FrameKinds : SendPanicking(c, k))
        \/ (AllowAcceptFault /\ AcceptFault /\ Log(E("emfile", "", 0, "", "", FALSE)) /\ UNCHANGED <<plan, pinline>>)
NEnv == Cardinality({j \in 1..Len(hist) : hist[j].a \in {"run", "stop", "dial", "close", "send", "release", "panic", "stopreading", "emfile", "timeout"}})
SNext == IF ENABLED ServerQ THEN ServerQ ELSE (NEnv < Depth /\ EnvQ)
SSpec == SInit /\ [][SNext]_svars

\* emitted at every quiescent state that has used all its environment actions (or cannot go on)
Done == ~ENABLED ServerQ /\ (NEnv = Depth \/ ~ENABLED EnvQ)
Emit == ~Done \/ PrintT(ToJson([behaviour |-> hist]))
=============================================================================
