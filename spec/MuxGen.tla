------------------------------ MODULE MuxGen ------------------------------
(* Vector generator for C03: every route table up to GenLen routes over    *)
(* the route alphabet, crossed with default/unbind (re-)registrations, and *)
(* the complete request set.  Written as ND-JSON to IOEnv.OUT.             *)
EXTENDS Mux, Json, IOUtils, SequencesExt

CONSTANT GenLen
Tables(n) == UNION {[1..k -> Routes] : k \in 0..n}
Vec(t, d, u) == [kind |-> "table", routes |-> t, def |-> d, unb |-> u]
Vectors ==
  {Vec(t, d, u) : t \in Tables(1), d \in 0..MaxGen, u \in 0..MaxGen}
  \cup {Vec(t, d, 0) : t \in Tables(GenLen) \ Tables(1), d \in 0..1}
ReqLine == [kind |-> "reqs", reqs |-> SetToSeq(Requests)]
ASSUME ndJsonSerialize(IOEnv.OUT, <<ReqLine>> \o SetToSeq(Vectors))
ASSUME PrintT(<<"VECTORS", Cardinality(Vectors), "REQUESTS", Cardinality(Requests)>>)
VARIABLE x
Init == x = 0 /\ MuxInit
Next == x' = x /\ UNCHANGED mvars
===========================================================================
