------------------------------ MODULE ReqGen02 ------------------------------
EXTENDS ReqGen
CanonVecs == {[kind |-> "canon", of |-> r.op, tree |-> EncodeRequest(r), pred |-> r.op] : r \in Canon}
ASSUME ndJsonSerialize(IOEnv.OUT, SetToSeq(CanonVecs) \o SetToSeq(Mutants))
ASSUME PrintT(<<"VECTORS", Cardinality(Mutants)>>)
=============================================================================
