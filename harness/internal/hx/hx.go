// Package hx: shared harness helpers (ports, servers, ND-JSON I/O, seeds).
package hx

import (
	"bufio"
	"encoding/json"
	"fmt"
	"io"
	"math/rand"
	"net"
	"os"
	"strconv"
	"sync"
	"sync/atomic"
	"time"

	"github.com/hashicorp/go-hclog"
	"github.com/jimlambrt/gldap"
)

// Seed returns VERIF_SEED (default 1)
func Seed() int64 {
	if s := os.Getenv("VERIF_SEED"); s != "" {
		if v, err := strconv.ParseInt(s, 10, 64); err == nil {
			return v
		}
	}
	return 1
}

func Rand(salt int64) *rand.Rand { return rand.New(rand.NewSource(Seed()*1000003 + salt)) }

var portNext int64 = -1

// FreePort returns a TCP port on 127.0.0.1 which is free right now.  Ports are
// taken round-robin from a window below the ephemeral range, so that thousands
// of short-lived servers do not exhaust the ephemeral ports (TIME_WAIT).
func FreePort() int {
	const lo, span = 10000, 20000
	for try := 0; try < span; try++ {
		n := atomic.AddInt64(&portNext, 1)
		if n == 0 {
			atomic.StoreInt64(&portNext, int64((os.Getpid()*7919+int(time.Now().UnixNano()%9973))%span))
			continue
		}
		port := lo + int(n%span)
		l, err := net.Listen("tcp", fmt.Sprintf("127.0.0.1:%d", port))
		if err != nil {
			continue
		}
		l.Close()
		return port
	}
	panic("no free port")
}

// Quiet logger
func NullLogger() hclog.Logger {
	return hclog.New(&hclog.LoggerOptions{Level: hclog.Off, Output: io.Discard})
}

// DebugLogger logs at debug level (into nothing): the code paths that only run when debug logging is on do run
func DebugLogger() hclog.Logger {
	return hclog.New(&hclog.LoggerOptions{Level: hclog.Debug, Output: io.Discard})
}

// LoggerFor alternates between the quiet and the debug-level logger (n: worker / vector number, shifted by the seed)
func LoggerFor(n int) hclog.Logger {
	if (n+int(Seed()))%2 == 1 {
		return DebugLogger()
	}
	return NullLogger()
}

// SlowLogger: a quiet logger whose Debug calls take a little time - code that logs in the middle of a critical section (or
// of what should be one) keeps the window open that long
type SlowLogger struct{ hclog.Logger }

func (SlowLogger) Debug(msg string, args ...interface{}) { time.Sleep(40 * time.Microsecond) }

// Server is a running gldap server
type Server struct {
	S      *gldap.Server
	Addr   string
	Port   int
	RunErr chan error
}

// StartServer runs a gldap server with the mux on a free port and waits for
// Ready (retrying on port collisions).
func StartServer(mux *gldap.Mux, sopts []gldap.Option, ropts []gldap.Option) (*Server, error) {
	var lastErr error
	for attempt := 0; attempt < 20; attempt++ {
		s, err := gldap.NewServer(sopts...)
		if err != nil {
			return nil, err
		}
		if mux != nil {
			if err := s.Router(mux); err != nil {
				return nil, err
			}
		}
		port := FreePort()
		addr := fmt.Sprintf("127.0.0.1:%d", port)
		srv := &Server{S: s, Addr: addr, Port: port, RunErr: make(chan error, 1)}
		go func() { srv.RunErr <- s.Run(addr, ropts...) }()
		deadline := time.Now().Add(10 * time.Second)
		ok := false
	wait:
		for time.Now().Before(deadline) {
			if s.Ready() {
				ok = true
				break
			}
			select {
			case err := <-srv.RunErr:
				lastErr = err
				break wait
			default:
				time.Sleep(50 * time.Microsecond)
			}
		}
		if ok {
			return srv, nil
		}
		if lastErr == nil {
			lastErr = fmt.Errorf("server not ready after 10s")
		}
	}
	return nil, fmt.Errorf("cannot start server: %v", lastErr)
}

// Stop stops the server with a bound; returns false if Stop did not return in time
func (s *Server) Stop(bound time.Duration) bool {
	done := make(chan struct{})
	go func() { _ = s.S.Stop(); close(done) }()
	select {
	case <-done:
		return true
	case <-time.After(bound):
		return false
	}
}

// Out is a concurrent ND-JSON writer; every record gets a process-wide sequence number
type Out struct {
	mu   sync.Mutex
	w    *bufio.Writer
	f    *os.File
	seq  int64
	N    int64
	sync bool
}

func NewOut(path string) (*Out, error) {
	f, err := os.Create(path)
	if err != nil {
		return nil, err
	}
	return &Out{f: f, w: bufio.NewWriterSize(f, 1<<20)}, nil
}

// Seq returns the next global sequence number
func (o *Out) Seq() int64 { return atomic.AddInt64(&o.seq, 1) }

func (o *Out) Write(v interface{}) {
	b, err := json.Marshal(v)
	if err != nil {
		panic(err)
	}
	o.mu.Lock()
	o.w.Write(b)
	o.w.WriteByte('\n')
	if o.sync {
		o.w.Flush()
	}
	o.N++
	o.mu.Unlock()
}

func (o *Out) Close() error {
	o.mu.Lock()
	defer o.mu.Unlock()
	if err := o.w.Flush(); err != nil {
		return err
	}
	return o.f.Close()
}

// ReadLines streams ND-JSON lines
func ReadLines(path string, fn func(line []byte) error) error {
	f, err := os.Open(path)
	if err != nil {
		return err
	}
	defer f.Close()
	sc := bufio.NewScanner(f)
	sc.Buffer(make([]byte, 1<<20), 256<<20)
	for sc.Scan() {
		if len(sc.Bytes()) == 0 {
			continue
		}
		if err := fn(append([]byte(nil), sc.Bytes()...)); err != nil {
			return err
		}
	}
	return sc.Err()
}

// Parallel runs fn(i) for i in [0,n) on par workers
func Parallel(n, par int, fn func(i int)) {
	if par < 1 {
		par = 1
	}
	var wg sync.WaitGroup
	var next int64 = -1
	for w := 0; w < par; w++ {
		wg.Add(1)
		go func() {
			defer wg.Done()
			for {
				i := int(atomic.AddInt64(&next, 1))
				if i >= n {
					return
				}
				fn(i)
			}
		}()
	}
	wg.Wait()
}

// Budget hands out a generous timeout until it has been exhausted n times
type Budget struct {
	left        int64
	long, short time.Duration
}

func NewBudget(n int, long, short time.Duration) *Budget {
	return &Budget{left: int64(n), long: long, short: short}
}

func (b *Budget) Timeout() time.Duration {
	if atomic.LoadInt64(&b.left) > 0 {
		return b.long
	}
	return b.short
}

func (b *Budget) Spent() { atomic.AddInt64(&b.left, -1) }

// patience: the first few waits of a process that run out are given a second, much longer period before the event is
// taken to be missing - on an oversubscribed machine a goroutine that has 100 ms of work (encoding a 16 MB response) has
// been seen to need more than 3 s. A wait that succeeds in its second period costs nothing; one that does not has cost
// PatiencePeriod once.
var patienceLeft int64 = 6

const PatiencePeriod = 15 * time.Second

func (b *Budget) Patience() time.Duration {
	if atomic.LoadInt64(&b.left) <= 0 {
		return 0
	}
	if atomic.AddInt64(&patienceLeft, -1) < 0 {
		return 0
	}
	return PatiencePeriod
}

// PatienceBack: the event came during the second period - this was a slow machine, not a missing event
func (b *Budget) PatienceBack() { atomic.AddInt64(&patienceLeft, 1) }

// Exhausted: so many waits timed out that going on only costs time (the tree is broken and the
// anomalies seen so far are reported); the remaining cases are skipped.
func (b *Budget) Exhausted() bool { return atomic.LoadInt64(&b.left) < -100 }

// NewOutSync is an Out that flushes after every record (the process may crash at any time)
func NewOutSync(path string) (*Out, error) {
	f, err := os.Create(path)
	if err != nil {
		return nil, err
	}
	return &Out{f: f, w: bufio.NewWriterSize(f, 0), sync: true}, nil
}
