package hx

import (
	"crypto/tls"
	"crypto/x509"
	"fmt"
	"time"

	"github.com/hashicorp/go-hclog"
	"github.com/jimlambrt/gldap/testdirectory"
)

// Dir is a running test directory
type Dir struct {
	D    *testdirectory.Directory
	Addr string
	T    *testdirectory.Logger
}

// StartDir starts a test directory on 127.0.0.1 (plain when noTLS, else TLS; mtls requires client certs)
func StartDir(noTLS, mtls bool, extra ...testdirectory.Option) (d *Dir, err error) {
	defer func() {
		if r := recover(); r != nil {
			err = fmt.Errorf("testdirectory.Start: %v", r)
		}
	}()
	t := &testdirectory.Logger{Logger: hclog.New(&hclog.LoggerOptions{Level: hclog.Off})}
	port := FreePort()
	opts := []testdirectory.Option{testdirectory.WithLogger(t, NullLogger()), testdirectory.WithHost(t, "127.0.0.1"), testdirectory.WithPort(t, port)}
	if noTLS {
		opts = append(opts, testdirectory.WithNoTLS(t))
	}
	if mtls {
		opts = append(opts, testdirectory.WithMTLS(t))
	}
	opts = append(opts, extra...)
	td := testdirectory.Start(t, opts...)
	return &Dir{D: td, Addr: fmt.Sprintf("127.0.0.1:%d", port), T: t}, nil
}

// ClientTLS returns a client config trusting the directory's certificate
func (d *Dir) ClientTLS() *tls.Config {
	pool := x509.NewCertPool()
	pool.AppendCertsFromPEM([]byte(d.D.Cert()))
	return &tls.Config{RootCAs: pool, ServerName: "127.0.0.1"}
}

// Stop with a bound
func (d *Dir) Stop(bound time.Duration) bool {
	done := make(chan struct{})
	go func() { d.D.Stop(); close(done) }()
	select {
	case <-done:
		return true
	case <-time.After(bound):
		return false
	}
}
