package hx

import (
	"crypto/ecdsa"
	"crypto/elliptic"
	"crypto/rand"
	"crypto/tls"
	"crypto/x509"
	"crypto/x509/pkix"
	"math/big"
	"net"
	"time"
)

// CA is a throw-away certificate authority
type CA struct {
	Cert *x509.Certificate
	Key  *ecdsa.PrivateKey
	DER  []byte
}

func NewCA(name string) (*CA, error) {
	key, err := ecdsa.GenerateKey(elliptic.P256(), rand.Reader)
	if err != nil {
		return nil, err
	}
	tmpl := &x509.Certificate{SerialNumber: big.NewInt(time.Now().UnixNano()), Subject: pkix.Name{CommonName: name},
		NotBefore: time.Now().Add(-time.Hour), NotAfter: time.Now().Add(24 * time.Hour), IsCA: true,
		KeyUsage: x509.KeyUsageCertSign | x509.KeyUsageDigitalSignature, BasicConstraintsValid: true}
	der, err := x509.CreateCertificate(rand.Reader, tmpl, tmpl, &key.PublicKey, key)
	if err != nil {
		return nil, err
	}
	cert, err := x509.ParseCertificate(der)
	if err != nil {
		return nil, err
	}
	return &CA{Cert: cert, Key: key, DER: der}, nil
}

// Issue makes a leaf certificate (server: for 127.0.0.1 / localhost; client: client auth)
func (ca *CA) Issue(cn string, client bool) (tls.Certificate, error) {
	key, err := ecdsa.GenerateKey(elliptic.P256(), rand.Reader)
	if err != nil {
		return tls.Certificate{}, err
	}
	tmpl := &x509.Certificate{SerialNumber: big.NewInt(time.Now().UnixNano()), Subject: pkix.Name{CommonName: cn},
		NotBefore: time.Now().Add(-time.Hour), NotAfter: time.Now().Add(24 * time.Hour), KeyUsage: x509.KeyUsageDigitalSignature}
	if client {
		tmpl.ExtKeyUsage = []x509.ExtKeyUsage{x509.ExtKeyUsageClientAuth}
	} else {
		tmpl.ExtKeyUsage = []x509.ExtKeyUsage{x509.ExtKeyUsageServerAuth}
		tmpl.IPAddresses = []net.IP{net.ParseIP("127.0.0.1")}
		tmpl.DNSNames = []string{"localhost"}
	}
	der, err := x509.CreateCertificate(rand.Reader, tmpl, ca.Cert, &key.PublicKey, ca.Key)
	if err != nil {
		return tls.Certificate{}, err
	}
	return tls.Certificate{Certificate: [][]byte{der}, PrivateKey: key}, nil
}

func (ca *CA) Pool() *x509.CertPool {
	p := x509.NewCertPool()
	p.AddCert(ca.Cert)
	return p
}

// SelfSignedTLS returns a server config (server authentication only) and a matching client config
func SelfSignedTLS() (*tls.Config, *tls.Config, error) {
	ca, err := NewCA("verif-ca")
	if err != nil {
		return nil, nil, err
	}
	sc, err := ca.Issue("server", false)
	if err != nil {
		return nil, nil, err
	}
	return &tls.Config{Certificates: []tls.Certificate{sc}, MinVersion: tls.VersionTLS12}, &tls.Config{RootCAs: ca.Pool(), ServerName: "127.0.0.1"}, nil
}
