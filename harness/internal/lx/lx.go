// Package lx holds the harness's LDAP wire helpers: request builders on top
// of berx, a strict LDAPMessage response parser and a raw client connection.
package lx

import (
	"bufio"
	"crypto/tls"
	"errors"
	"fmt"
	"io"
	"net"
	"time"

	"verif/harness/internal/berx"
)

// application tags
const (
	AppBindReq     = 0
	AppBindResp    = 1
	AppUnbindReq   = 2
	AppSearchReq   = 3
	AppSearchEntry = 4
	AppSearchDone  = 5
	AppModifyReq   = 6
	AppModifyResp  = 7
	AppAddReq      = 8
	AppAddResp     = 9
	AppDelReq      = 10
	AppDelResp     = 11
	AppModDNReq    = 12
	AppCompareReq  = 14
	AppAbandonReq  = 16
	AppExtReq      = 23
	AppExtResp     = 24
)

const OIDStartTLS = "1.3.6.1.4.1.1466.20037"

// Envelope wraps a protocolOp (and optional controls node) with a message id
func Envelope(msgid int64, op *berx.Node, controls *berx.Node) *berx.Node {
	n := berx.Seq(berx.Int(msgid), op)
	if controls != nil {
		n.Kids = append(n.Kids, controls)
	}
	return n
}

func BindReq(version int64, dn, pw string) *berx.Node {
	return berx.AppC(AppBindReq, berx.Int(version), berx.Str(dn), berx.CtxP(0, []byte(pw)))
}

func UnbindReq() *berx.Node { return berx.AppP(AppUnbindReq, nil) }

func DelReq(dn string) *berx.Node { return berx.AppP(AppDelReq, []byte(dn)) }

func ExtReq(name string) *berx.Node {
	return berx.AppC(AppExtReq, berx.CtxP(0, []byte(name)))
}

func SearchReq(base string, scope, deref, size, tlimit int64, typesOnly bool, filter *berx.Node, attrs []string) *berx.Node {
	as := berx.Seq()
	for _, a := range attrs {
		as.Kids = append(as.Kids, berx.Str(a))
	}
	return berx.AppC(AppSearchReq, berx.Str(base), berx.Enum(scope), berx.Enum(deref), berx.Int(size), berx.Int(tlimit), berx.Bool(typesOnly), filter, as)
}

// FilterPresent is (attr=*)
func FilterPresent(attr string) *berx.Node { return berx.CtxP(7, []byte(attr)) }

// FilterEq is (attr=val)
func FilterEq(attr, val string) *berx.Node {
	return berx.CtxC(3, berx.Str(attr), berx.Str(val))
}

type Attr struct {
	Type string
	Vals []string
}

func attrNode(a Attr) *berx.Node {
	set := berx.Set()
	for _, v := range a.Vals {
		set.Kids = append(set.Kids, berx.Str(v))
	}
	return berx.Seq(berx.Str(a.Type), set)
}

func AddReq(dn string, attrs []Attr) *berx.Node {
	as := berx.Seq()
	for _, a := range attrs {
		as.Kids = append(as.Kids, attrNode(a))
	}
	return berx.AppC(AppAddReq, berx.Str(dn), as)
}

type Change struct {
	Op   int64
	Attr Attr
}

func ModifyReq(dn string, changes []Change) *berx.Node {
	cs := berx.Seq()
	for _, c := range changes {
		cs.Kids = append(cs.Kids, berx.Seq(berx.Enum(c.Op), attrNode(c.Attr)))
	}
	return berx.AppC(AppModifyReq, berx.Str(dn), cs)
}

// Control builds a control node: value==nil means absent
func Control(oid string, crit *bool, value []byte) *berx.Node {
	n := berx.Seq(berx.Str(oid))
	if crit != nil {
		n.Kids = append(n.Kids, berx.Bool(*crit))
	}
	if value != nil {
		n.Kids = append(n.Kids, berx.Bytes(value))
	}
	return n
}

func Controls(cs ...*berx.Node) *berx.Node { return berx.CtxC(0, cs...) }

// Msg is a strictly parsed LDAPMessage (response direction)
type Msg struct {
	ID       int64
	Tag      int  // application tag of the protocolOp
	Cons     bool // protocolOp constructed
	Code     int64
	Matched  string
	Diag     string
	HasRes   bool // an LDAPResult was parsed
	EntryDN  string
	Attrs    []Attr
	Extra    []*berx.Node // further children of the LDAPResult (e.g. responseName)
	Controls []*berx.Node // raw control sequences
	Raw      []byte
	Node     *berx.Node
}

// ParseMsg strictly parses one LDAPMessage frame
func ParseMsg(frame []byte) (*Msg, error) {
	n, err := berx.ParseAll(frame)
	if err != nil {
		return nil, err
	}
	if n.Class != berx.Univ || !n.Cons || n.Tag != berx.TagSeq {
		return nil, fmt.Errorf("envelope is %s", n)
	}
	if len(n.Kids) < 2 || len(n.Kids) > 3 {
		return nil, fmt.Errorf("envelope has %d children", len(n.Kids))
	}
	idn := n.Kids[0]
	if idn.Class != berx.Univ || idn.Cons || idn.Tag != berx.TagInt {
		return nil, fmt.Errorf("message id is %s", idn)
	}
	m := &Msg{Raw: frame, Node: n}
	if m.ID, err = berx.DecInt(idn.Val); err != nil {
		return nil, err
	}
	op := n.Kids[1]
	if op.Class != berx.App {
		return nil, fmt.Errorf("protocolOp is %s", op)
	}
	m.Tag, m.Cons = op.Tag, op.Cons
	switch op.Tag {
	case AppSearchEntry:
		if !op.Cons || len(op.Kids) != 2 {
			return nil, fmt.Errorf("search entry is %s", op)
		}
		dn := op.Kids[0]
		if dn.Class != berx.Univ || dn.Cons || dn.Tag != berx.TagOct {
			return nil, fmt.Errorf("entry dn is %s", dn)
		}
		m.EntryDN = string(dn.Val)
		as := op.Kids[1]
		if as.Class != berx.Univ || !as.Cons || as.Tag != berx.TagSeq {
			return nil, fmt.Errorf("entry attributes is %s", as)
		}
		for _, a := range as.Kids {
			if a.Class != berx.Univ || !a.Cons || a.Tag != berx.TagSeq || len(a.Kids) != 2 {
				return nil, fmt.Errorf("attribute is %s", a)
			}
			t, vs := a.Kids[0], a.Kids[1]
			if t.Class != berx.Univ || t.Cons || t.Tag != berx.TagOct || vs.Class != berx.Univ || !vs.Cons || vs.Tag != berx.TagSet {
				return nil, fmt.Errorf("attribute is %s", a)
			}
			at := Attr{Type: string(t.Val), Vals: []string{}}
			for _, v := range vs.Kids {
				if v.Class != berx.Univ || v.Cons || v.Tag != berx.TagOct {
					return nil, fmt.Errorf("attribute value is %s", v)
				}
				at.Vals = append(at.Vals, string(v.Val))
			}
			m.Attrs = append(m.Attrs, at)
		}
	default:
		// LDAPResult ::= resultCode ENUMERATED, matchedDN, diagnosticMessage, ...
		if !op.Cons || len(op.Kids) < 3 {
			return nil, fmt.Errorf("ldap result is %s", op)
		}
		rc, md, dm := op.Kids[0], op.Kids[1], op.Kids[2]
		if rc.Class != berx.Univ || rc.Cons || rc.Tag != berx.TagEnum {
			return nil, fmt.Errorf("result code is %s", rc)
		}
		if m.Code, err = berx.DecInt(rc.Val); err != nil {
			return nil, err
		}
		for _, x := range []*berx.Node{md, dm} {
			if x.Class != berx.Univ || x.Cons || x.Tag != berx.TagOct {
				return nil, fmt.Errorf("ldap result string is %s", x)
			}
		}
		m.Matched, m.Diag, m.HasRes = string(md.Val), string(dm.Val), true
		m.Extra = op.Kids[3:]
	}
	if len(n.Kids) == 3 {
		cs := n.Kids[2]
		if cs.Class != berx.Ctx || !cs.Cons || cs.Tag != 0 {
			return nil, fmt.Errorf("controls is %s", cs)
		}
		for _, c := range cs.Kids {
			if c.Class != berx.Univ || !c.Cons || c.Tag != berx.TagSeq {
				return nil, fmt.Errorf("control is %s", c)
			}
			m.Controls = append(m.Controls, c)
		}
	}
	return m, nil
}

// Ctl is a decoded control (generic view)
type Ctl struct {
	OID      string
	Crit     bool
	HasCrit  bool
	Value    []byte
	HasValue bool
}

// ParseControl strictly parses the generic Control SEQUENCE
func ParseControl(c *berx.Node) (*Ctl, error) {
	if len(c.Kids) < 1 || len(c.Kids) > 3 {
		return nil, fmt.Errorf("control has %d children", len(c.Kids))
	}
	t := c.Kids[0]
	if t.Class != berx.Univ || t.Cons || t.Tag != berx.TagOct {
		return nil, fmt.Errorf("control type is %s", t)
	}
	out := &Ctl{OID: string(t.Val)}
	rest := c.Kids[1:]
	if len(rest) > 0 && rest[0].Class == berx.Univ && !rest[0].Cons && rest[0].Tag == berx.TagBool {
		if len(rest[0].Val) != 1 {
			return nil, fmt.Errorf("criticality is %s", rest[0])
		}
		out.HasCrit, out.Crit = true, rest[0].Val[0] != 0
		rest = rest[1:]
	}
	if len(rest) > 0 {
		v := rest[0]
		if v.Class != berx.Univ || v.Tag != berx.TagOct {
			return nil, fmt.Errorf("control value is %s", v)
		}
		out.HasValue = true
		if v.Cons {
			// gldap encodes some values as a primitive-tagged octet string
			// holding children; re-encode the children as the content
			for _, k := range v.Kids {
				out.Value = append(out.Value, k.Encode()...)
			}
		} else {
			out.Value = v.Val
		}
		rest = rest[1:]
	}
	if len(rest) != 0 {
		return nil, fmt.Errorf("control has unexpected children: %s", c)
	}
	return out, nil
}

// Conn is a raw client connection
type Conn struct {
	C net.Conn
	R *bufio.Reader
}

func Dial(addr string, timeout time.Duration) (*Conn, error) {
	c, err := net.DialTimeout("tcp", addr, timeout)
	if err != nil {
		return nil, err
	}
	return &Conn{C: c, R: bufio.NewReader(c)}, nil
}

func DialTLS(addr string, cfg *tls.Config, timeout time.Duration) (*Conn, error) {
	d := &net.Dialer{Timeout: timeout}
	c, err := tls.DialWithDialer(d, "tcp", addr, cfg)
	if err != nil {
		return nil, err
	}
	return &Conn{C: c, R: bufio.NewReader(c)}, nil
}

// Upgrade switches the connection to TLS (client side of StartTLS)
func (c *Conn) Upgrade(cfg *tls.Config, timeout time.Duration) error {
	if c.R.Buffered() != 0 {
		return errors.New("plaintext bytes buffered before the handshake")
	}
	tc := tls.Client(c.C, cfg)
	_ = tc.SetDeadline(time.Now().Add(timeout))
	if err := tc.Handshake(); err != nil {
		return err
	}
	_ = tc.SetDeadline(time.Time{})
	c.C = tc
	c.R = bufio.NewReader(tc)
	return nil
}

func (c *Conn) Send(nodes ...*berx.Node) error {
	var buf []byte
	for _, n := range nodes {
		buf = append(buf, n.Encode()...)
	}
	_, err := c.C.Write(buf)
	return err
}

func (c *Conn) SendRaw(b []byte) error {
	_, err := c.C.Write(b)
	return err
}

// Recv reads one frame and parses it strictly. io.EOF means a clean close
// at a frame boundary.
func (c *Conn) Recv(timeout time.Duration) (*Msg, error) {
	_ = c.C.SetReadDeadline(time.Now().Add(timeout))
	frame, err := berx.ReadFrame(c.R)
	if err != nil {
		return nil, err
	}
	return ParseMsg(frame)
}

// WaitEOF reads until the peer closes; returns the number of stray bytes
func (c *Conn) WaitEOF(timeout time.Duration) (int, error) {
	_ = c.C.SetReadDeadline(time.Now().Add(timeout))
	n, err := io.Copy(io.Discard, c.R)
	if err != nil {
		return int(n), err
	}
	return int(n), nil
}

func (c *Conn) Close() { _ = c.C.Close() }

// IsFinal says whether a response tag ends an operation
func IsFinal(tag int) bool { return tag != AppSearchEntry && tag != 19 }

// RespTagFor maps a request application tag to the final response tag
func RespTagFor(reqTag int) int {
	switch reqTag {
	case AppBindReq:
		return AppBindResp
	case AppSearchReq:
		return AppSearchDone
	case AppModifyReq:
		return AppModifyResp
	case AppAddReq:
		return AppAddResp
	case AppDelReq:
		return AppDelResp
	case AppExtReq:
		return AppExtResp
	}
	return -1
}
