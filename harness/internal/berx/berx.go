// Package berx is the harness's own BER encoder and strict decoder.  Nothing
// of gldap's or asn1-ber's encoder/decoder is used on the observing side.
package berx

import (
	"bufio"
	"errors"
	"fmt"
	"io"
)

// Classes
const (
	Univ = 0
	App  = 1
	Ctx  = 2
	Priv = 3
)

// Universal tags used by LDAP
const (
	TagBool = 1
	TagInt  = 2
	TagOct  = 4
	TagNull = 5
	TagEnum = 10
	TagSeq  = 16
	TagSet  = 17
)

// Node is a BER TLV
type Node struct {
	Class int
	Cons  bool
	Tag   int
	Val   []byte  // primitive content
	Kids  []*Node // constructed content
}

func Seq(kids ...*Node) *Node      { return &Node{Class: Univ, Cons: true, Tag: TagSeq, Kids: kids} }
func Set(kids ...*Node) *Node      { return &Node{Class: Univ, Cons: true, Tag: TagSet, Kids: kids} }
func Str(s string) *Node           { return &Node{Class: Univ, Tag: TagOct, Val: []byte(s)} }
func Bytes(b []byte) *Node         { return &Node{Class: Univ, Tag: TagOct, Val: b} }
func Int(v int64) *Node            { return &Node{Class: Univ, Tag: TagInt, Val: EncInt(v)} }
func Enum(v int64) *Node           { return &Node{Class: Univ, Tag: TagEnum, Val: EncInt(v)} }
func Null() *Node                  { return &Node{Class: Univ, Tag: TagNull} }
func CtxP(tag int, v []byte) *Node { return &Node{Class: Ctx, Tag: tag, Val: v} }
func CtxC(tag int, kids ...*Node) *Node {
	return &Node{Class: Ctx, Cons: true, Tag: tag, Kids: kids}
}
func AppC(tag int, kids ...*Node) *Node {
	return &Node{Class: App, Cons: true, Tag: tag, Kids: kids}
}
func AppP(tag int, v []byte) *Node { return &Node{Class: App, Tag: tag, Val: v} }
func Bool(b bool) *Node {
	v := byte(0)
	if b {
		v = 0xff
	}
	return &Node{Class: Univ, Tag: TagBool, Val: []byte{v}}
}

// EncInt is the minimal two's complement encoding
func EncInt(v int64) []byte {
	n := 1
	for x := v; x > 127 || x < -128; x >>= 8 {
		n++
	}
	out := make([]byte, n)
	for i := n - 1; i >= 0; i-- {
		out[i] = byte(v)
		v >>= 8
	}
	return out
}

// DecInt decodes a two's complement integer (1..8 bytes)
func DecInt(b []byte) (int64, error) {
	if len(b) == 0 || len(b) > 8 {
		return 0, fmt.Errorf("integer of %d bytes", len(b))
	}
	var v int64
	if b[0]&0x80 != 0 {
		v = -1
	}
	for _, x := range b {
		v = v<<8 | int64(x)
	}
	return v, nil
}

func encLen(n int) []byte {
	if n < 128 {
		return []byte{byte(n)}
	}
	var tmp []byte
	for x := n; x > 0; x >>= 8 {
		tmp = append([]byte{byte(x)}, tmp...)
	}
	return append([]byte{0x80 | byte(len(tmp))}, tmp...)
}

func encIdent(class int, cons bool, tag int) []byte {
	b := byte(class << 6)
	if cons {
		b |= 0x20
	}
	if tag < 31 {
		return []byte{b | byte(tag)}
	}
	out := []byte{b | 0x1f}
	var tmp []byte
	for x := tag; ; x >>= 7 {
		tmp = append([]byte{byte(x & 0x7f)}, tmp...)
		if x>>7 == 0 {
			break
		}
	}
	for i := range tmp[:len(tmp)-1] {
		tmp[i] |= 0x80
	}
	return append(out, tmp...)
}

// Encode serialises with definite, minimal lengths
func (n *Node) Encode() []byte {
	var content []byte
	if n.Cons {
		for _, k := range n.Kids {
			content = append(content, k.Encode()...)
		}
	} else {
		content = n.Val
	}
	out := encIdent(n.Class, n.Cons, n.Tag)
	out = append(out, encLen(len(content))...)
	return append(out, content...)
}

// Clone deep-copies
func (n *Node) Clone() *Node {
	c := &Node{Class: n.Class, Cons: n.Cons, Tag: n.Tag, Val: append([]byte(nil), n.Val...)}
	for _, k := range n.Kids {
		c.Kids = append(c.Kids, k.Clone())
	}
	return c
}

// ErrShort means more bytes are needed
var ErrShort = errors.New("berx: short")

// parseHeader returns class, cons, tag, content length, header length.
func parseHeader(b []byte) (class int, cons bool, tag, clen, hlen int, err error) {
	if len(b) < 2 {
		return 0, false, 0, 0, 0, ErrShort
	}
	class = int(b[0] >> 6)
	cons = b[0]&0x20 != 0
	tag = int(b[0] & 0x1f)
	i := 1
	if tag == 0x1f {
		tag = 0
		for {
			if i >= len(b) {
				return 0, false, 0, 0, 0, ErrShort
			}
			if i > 5 {
				return 0, false, 0, 0, 0, errors.New("berx: tag too long")
			}
			tag = tag<<7 | int(b[i]&0x7f)
			i++
			if b[i-1]&0x80 == 0 {
				break
			}
		}
	}
	if i >= len(b) {
		return 0, false, 0, 0, 0, ErrShort
	}
	l := b[i]
	i++
	switch {
	case l < 0x80:
		clen = int(l)
	case l == 0x80:
		return 0, false, 0, 0, 0, errors.New("berx: indefinite length")
	case l == 0xff:
		return 0, false, 0, 0, 0, errors.New("berx: invalid length 0xff")
	default:
		nb := int(l & 0x7f)
		if nb > 4 {
			return 0, false, 0, 0, 0, errors.New("berx: length too large")
		}
		if i+nb > len(b) {
			return 0, false, 0, 0, 0, ErrShort
		}
		for j := 0; j < nb; j++ {
			clen = clen<<8 | int(b[i+j])
		}
		i += nb
	}
	return class, cons, tag, clen, i, nil
}

// Parse strictly decodes exactly one TLV from b and returns the rest.
func Parse(b []byte) (*Node, []byte, error) {
	class, cons, tag, clen, hlen, err := parseHeader(b)
	if err != nil {
		return nil, nil, err
	}
	if len(b) < hlen+clen {
		return nil, nil, ErrShort
	}
	content := b[hlen : hlen+clen]
	n := &Node{Class: class, Cons: cons, Tag: tag}
	if cons {
		for len(content) > 0 {
			k, rest, err := Parse(content)
			if err != nil {
				if err == ErrShort {
					err = errors.New("berx: child exceeds parent")
				}
				return nil, nil, err
			}
			n.Kids = append(n.Kids, k)
			content = rest
		}
	} else {
		n.Val = append([]byte(nil), content...)
	}
	return n, b[hlen+clen:], nil
}

// ParseAll requires b to be exactly one TLV
func ParseAll(b []byte) (*Node, error) {
	n, rest, err := Parse(b)
	if err != nil {
		return nil, err
	}
	if len(rest) != 0 {
		return nil, fmt.Errorf("berx: %d trailing bytes", len(rest))
	}
	return n, nil
}

// ReadFrame reads exactly one top-level TLV (raw bytes) from r.
func ReadFrame(r *bufio.Reader) ([]byte, error) {
	var hdr []byte
	for {
		c, err := r.ReadByte()
		if err != nil {
			if len(hdr) > 0 && err == io.EOF {
				return hdr, io.ErrUnexpectedEOF
			}
			return hdr, err
		}
		hdr = append(hdr, c)
		_, _, _, clen, hlen, perr := parseHeader(hdr)
		if perr == ErrShort {
			if len(hdr) > 12 {
				return hdr, errors.New("berx: header too long")
			}
			continue
		}
		if perr != nil {
			return hdr, perr
		}
		_ = hlen
		if clen > 64<<20 {
			return hdr, fmt.Errorf("berx: frame of %d bytes", clen)
		}
		body := make([]byte, clen)
		if _, err := io.ReadFull(r, body); err != nil {
			if err == io.EOF {
				err = io.ErrUnexpectedEOF
			}
			return append(hdr, body...), err
		}
		return append(hdr, body...), nil
	}
}

// String is a compact debugging form
func (n *Node) String() string {
	cl := "UACP"[n.Class : n.Class+1]
	if !n.Cons {
		return fmt.Sprintf("%s%d:%q", cl, n.Tag, n.Val)
	}
	s := fmt.Sprintf("%s%d{", cl, n.Tag)
	for i, k := range n.Kids {
		if i > 0 {
			s += ","
		}
		s += k.String()
	}
	return s + "}"
}
