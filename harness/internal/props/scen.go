package props

import (
	"bufio"
	"crypto/tls"
	"crypto/x509"
	"encoding/json"
	"flag"
	"fmt"
	"io"
	"net"
	"os"
	"os/exec"
	"runtime"
	"strings"
	"sync"
	"sync/atomic"
	"syscall"
	"time"

	"github.com/jimlambrt/gldap"

	"verif/harness/internal/berx"
	"verif/harness/internal/hx"
	"verif/harness/internal/lx"
)

// ---- scenario runner: replays TLC-generated behaviours (environment actions + the observable events the
// model predicts) on a real gldap server and records an ND-JSON event trace.

// sEvent is one element of a behaviour (model vocabulary)
type sEvent struct {
	A    string `json:"a"`
	C    string `json:"c"`
	I    int    `json:"i"`
	K    string `json:"k"`
	S    string `json:"s"`
	Hold bool   `json:"hold"`
}

type sScenario struct {
	ID        int               `json:"id"`
	Cfg       map[string]string `json:"cfg"`
	Behaviour []sEvent          `json:"behaviour"`
}

// tEvent is one recorded event (uniform shape for the TLA+ trace spec)
type tEvent struct {
	Seq  int64  `json:"seq"`
	Ev   string `json:"ev"`
	C    string `json:"c"`
	Conn int    `json:"conn"`
	Req  int    `json:"req"`
	I    int    `json:"i"`
	K    string `json:"k"`
	S    string `json:"s"`
	Val  string `json:"val"`
	N    int    `json:"n"`
	M    int    `json:"m"`
	Held []int  `json:"held"`
	Scen int    `json:"scen"`
	G    int64  `json:"g"` // goroutine that logged the event (program order within a goroutine is exact)
	T    int64  `json:"t"` // milliseconds since the scenario started (diagnostics only: no check looks at it)
}

// goid: the id of the calling goroutine (harness only: used to split a trace into per-goroutine sequences)
func goid() int64 {
	var buf [64]byte
	n := runtime.Stack(buf[:], false)
	// "goroutine 123 [running]:"
	var id int64
	for _, ch := range buf[10:n] {
		if ch < '0' || ch > '9' {
			break
		}
		id = id*10 + int64(ch-'0')
	}
	return id
}

var envActions = map[string]bool{"run": true, "stop": true, "dial": true, "close": true, "send": true, "release": true, "panic": true, "reset": true, "hold_onclose": true, "release_onclose": true, "sendpartial": true, "stopreading": true, "probe": true, "sleep": true, "timeout": true}

type keptReq struct {
	req  *gldap.Request
	conn int
	c    string
	i    int
}

type framePlan struct {
	c     string
	i     int
	kind  string
	hold  bool
	panic bool
	rel   chan struct{}
	once  sync.Once
}

func (p *framePlan) release() { p.once.Do(func() { close(p.rel) }) }

type sClient struct {
	tag         string
	idx         int
	conn        *lx.Conn
	raw         net.Conn
	sentN       int
	done        chan struct{}
	mu          sync.Mutex
	noRead      bool
	closedLocal bool
	parked      chan struct{} // closed by the reader once it has stopped reading ("stopreading")
	tap         *tapConn
	kind        string
	readGate    chan struct{}
	dialAt      time.Time // when the dial was started (the server arms the read deadline of WithReadTimeout at accept time)
}

type runner struct {
	scen                  *sScenario
	out                   *hx.Out
	mu                    sync.Mutex
	log                   []tEvent
	cond                  *sync.Cond
	plans                 map[int64]*framePlan // by message id
	clients               map[string]*sClient
	byConn                map[int]string // ConnectionID -> tag (learned from handlers)
	srv                   *gldap.Server
	addr                  string
	runAddr               string
	runRet                chan error
	started               map[string]map[int]bool // hstart seen
	relsd                 map[string]map[int]bool // released by the scenario
	inflight              int64
	ocStart, ocDone       int64
	ocHold                bool
	ocRel                 chan struct{}
	stopRet               map[string]chan struct{}
	tlsSrv                *tls.Config
	tlsCli                *tls.Config
	clientCert, wrongCert tls.Certificate
	seed                  int64
	ended                 bool
	gates                 map[string]int
	gateHook              func(point string, ids ...int)
	mux                   *gldap.Mux
	lateRouteDone         bool
	readTimeout           time.Duration
	kept                  []keptReq // requests the application keeps after their handlers have returned (an audit queue, say)
	t0                    time.Time
	extraConns            int
}

func (r *runner) emit(e tEvent) {
	e.G = goid()
	r.mu.Lock()
	if r.ended {
		// the scenario is over: what happens during clean-up is not part of the trace
		r.mu.Unlock()
		return
	}
	if e.Ev == "end" {
		r.ended = true
	}
	e.Seq = r.out.Seq()
	e.T = time.Since(r.t0).Milliseconds()
	e.Scen = r.scen.ID
	if e.Held == nil {
		e.Held = []int{}
	}
	r.log = append(r.log, e)
	r.out.Write(e)
	r.cond.Broadcast()
	r.mu.Unlock()
}

// heldOn: handlers of c that have started and that the scenario has not released yet (the harness
// itself establishes this order: it is the one holding them)
func (r *runner) heldOn(c string) []int {
	out := []int{}
	for i := range r.started[c] {
		if p := r.plans[msgID(r.clients[c].idx, i)]; p != nil && p.hold && !r.relsd[c][i] {
			out = append(out, i)
		}
	}
	return out
}

func msgID(connIdx, i int) int64 { return int64(connIdx)*1000 + int64(i) }

// count of logged events matching
func (r *runner) countLocked(ev, c string, i int, s string) int {
	n := 0
	for _, e := range r.log {
		if e.Ev == ev && (c == "" || e.C == c) && (i == 0 || e.I == i) && (s == "" || e.S == s) {
			n++
		}
	}
	return n
}

// expect records what the model predicts after the last environment action (the trace spec compares
// the bag of predicted observable events with the bag of observed ones)
func (r *runner) expect(exp []sEvent) {
	for _, e := range exp {
		ev := map[string]string{"ready": "ready", "runret": "run_ret", "hstart": "hstart", "hunbind": "hunbind", "hend": "hend", "eof": "eof", "onclose": "onclose_out", "stopret": "stop_ret"}[e.A]
		if ev == "" {
			continue
		}
		i := e.I
		if ev == "eof" {
			r.mu.Lock()
			cl := r.clients[e.C]
			r.mu.Unlock()
			if cl == nil || cl.closedLocal || cl.isNoRead() {
				continue // a client that closed or stopped reading does not see the server's close
			}
		}
		if ev == "onclose_out" || ev == "eof" || ev == "ready" || ev == "run_ret" || ev == "stop_ret" {
			i = 0
		}
		r.emit(tEvent{Ev: "expect", Val: ev, C: e.C, I: i, S: e.S})
	}
}

// waitGate waits (bounded) until the server has passed a scheduling gate n times: used after dial, so that
// the accept loop has taken the connection before the next environment action (synchronisation only)
func (r *runner) waitGate(point string, n int) {
	deadline := time.Now().Add(slowBudget.Timeout())
	timer := time.AfterFunc(time.Until(deadline), func() { r.mu.Lock(); r.cond.Broadcast(); r.mu.Unlock() })
	defer timer.Stop()
	r.mu.Lock()
	defer r.mu.Unlock()
	extended := false
	for r.gates[point] < n {
		if time.Now().After(deadline) {
			if ext := patienceIf(!extended); ext > 0 {
				extended = true
				deadline = time.Now().Add(ext)
				t2 := time.AfterFunc(ext, func() { r.mu.Lock(); r.cond.Broadcast(); r.mu.Unlock() })
				defer t2.Stop()
				continue
			}
			slowBudget.Spent()
			return
		}
		r.cond.Wait()
	}
	if extended {
		slowBudget.PatienceBack()
	}
}

// at most two second periods per scenario (and hx's limit per process): a scenario in which events really are missing
// must still end before the watchdog of its worker process takes it for a hang
var scenPatience int32

func patienceIf(first bool) time.Duration {
	if !first || atomic.LoadInt32(&scenPatience) >= 2 {
		return 0
	}
	d := slowBudget.Patience()
	if d > 0 {
		atomic.AddInt32(&scenPatience, 1)
	}
	return d
}

// lateRoute: the application registers one more route while a handler is blocked (once per scenario).  The call is
// made from a goroutine of its own - on a mux that makes registration wait for running handlers it would not return -
// and has returned long before the frame that follows it is read.  The route's handler is the scenario's handler.
func (r *runner) lateRoute() {
	r.mu.Lock()
	held := false
	for _, p := range r.plans {
		if p.hold && r.started[p.c][p.i] && !r.relsd[p.c][p.i] {
			held = true
		}
	}
	if !held || r.lateRouteDone || r.mux == nil {
		r.mu.Unlock()
		return
	}
	r.lateRouteDone = true
	r.mu.Unlock()
	go func() { _ = r.mux.Bind(r.handler) }()
	time.Sleep(3 * time.Millisecond)
}

// waitStopCancelled waits (bounded) until a Stop call has passed its cancellation point or has returned
func (r *runner) waitStopCancelled(before int, ret chan struct{}) {
	deadline := time.Now().Add(slowBudget.Timeout())
	extended := false
	defer func() {
		if extended && time.Now().Before(deadline) {
			slowBudget.PatienceBack()
		}
	}()
	for {
		r.mu.Lock()
		n := r.gates["stop.cancelled"]
		r.mu.Unlock()
		if n > before {
			return
		}
		select {
		case <-ret:
			return
		case <-time.After(200 * time.Microsecond):
		}
		if time.Now().After(deadline) {
			if ext := patienceIf(!extended); ext > 0 {
				extended = true
				deadline = time.Now().Add(ext)
				continue
			}
			slowBudget.Spent()
			return
		}
	}
}

// waitFor blocks until the expected events (multiset) have been logged, or the budgeted timeout
func (r *runner) waitFor(exp []sEvent) {
	if len(exp) == 0 {
		return
	}
	need := map[[4]string]int{}
	for _, e := range exp {
		ev := map[string]string{"ready": "ready", "runret": "run_ret", "hstart": "hstart", "hunbind": "hunbind", "hend": "hend", "eof": "eof", "onclose": "onclose_out", "stopret": "stop_ret", "notice": "notice"}[e.A]
		if ev == "" {
			continue
		}
		if ev == "notice" {
			// the notice of disconnection tells the harness that the read loop is gone (synchronisation only)
			r.mu.Lock()
			cl := r.clients[e.C]
			r.mu.Unlock()
			if cl == nil || cl.closedLocal || cl.isNoRead() {
				continue
			}
		}
		c, i := e.C, e.I
		if ev == "eof" {
			r.mu.Lock()
			cl := r.clients[c]
			r.mu.Unlock()
			if cl == nil || cl.closedLocal || cl.isNoRead() {
				continue
			}
		}
		if ev == "onclose_out" || ev == "eof" || ev == "ready" || ev == "run_ret" || ev == "stop_ret" || ev == "notice" {
			i = 0
		}
		need[[4]string{ev, c, fmt.Sprint(i), e.S}]++
		if ev == "hstart" && e.K == "starttls" && r.scen.Cfg["tls"] == "starttls" && r.scen.Cfg["tls_hold_after"] == "1" {
			// the handler is held after the upgrade: the client's side of the handshake is over by then
			need[[4]string{"tlsup", c, fmt.Sprint(i), ""}]++
		}
		if ev == "hend" && e.K == "starttls" && r.scen.Cfg["tls"] == "starttls" {
			// a real upgrade: the client side of the handshake has to be over as well before anything else is sent
			r.mu.Lock()
			cl := r.clients[c]
			r.mu.Unlock()
			if cl != nil && cl.kind != "silent" && !cl.closedLocal && !cl.isNoRead() {
				need[[4]string{"tlsup", c, fmt.Sprint(i), ""}]++
			}
		}
	}
	wait := slowBudget.Timeout()
	for k := range need {
		if k[0] == "stop_ret" || k[0] == "run_ret" {
			// Stop legitimately takes its write grace period (1 s) when a handler is blocked writing to a client that does not
			// read; on a loaded machine that and the teardown behind it have been seen to exceed 3 s
			wait *= 4
			break
		}
	}
	deadline := time.Now().Add(wait)
	timer := time.AfterFunc(time.Until(deadline), func() { r.mu.Lock(); r.cond.Broadcast(); r.mu.Unlock() })
	defer timer.Stop()
	r.mu.Lock()
	defer r.mu.Unlock()
	extended := false
	for {
		ok := true
		for k, n := range need {
			var i int
			fmt.Sscan(k[2], &i)
			if r.countLocked(k[0], k[1], i, k[3]) < n {
				ok = false
				break
			}
		}
		if ok {
			if extended {
				slowBudget.PatienceBack()
				if os.Getenv("VERIF_DEBUG") != "" {
					fmt.Fprintf(os.Stderr, "SLOW scen=%d: %v came in the second waiting period\n", r.scen.ID, need)
				}
			}
			return
		}
		if time.Now().After(deadline) {
			if ext := patienceIf(!extended); ext > 0 {
				extended = true
				deadline = time.Now().Add(ext)
				t2 := time.AfterFunc(ext, func() { r.mu.Lock(); r.cond.Broadcast(); r.mu.Unlock() })
				defer t2.Stop()
				continue
			}
			slowBudget.Spent()
			if os.Getenv("VERIF_DEBUG") != "" {
				fmt.Fprintf(os.Stderr, "TIMEOUT scen=%d waiting for %v\n", r.scen.ID, need)
			}
			return
		}
		r.cond.Wait()
	}
}

func (r *runner) handler(w *gldap.ResponseWriter, req *gldap.Request) {
	o, typed := newReqSymCached().observe(req)
	_ = typed
	var id int64 = -1
	if o.ID != "" && strings.HasPrefix(o.ID, "?") {
		fmt.Sscan(o.ID[1:], &id)
	}
	kind := o.Op
	r.mu.Lock()
	p := r.plans[id]
	if p == nil && !typed {
		// extended operation (StartTLS in these scenarios): matched by connection + request ordinal
		tag, _ := r.tagOf(req.ConnectionID())
		for _, q := range r.plans {
			if q.kind == "starttls" && tag == q.c && q.i == req.ID {
				p = q
			}
		}
	}
	c, i := "?", 0
	if p != nil {
		c, i = p.c, p.i
		r.byConn[req.ConnectionID()] = c
		if r.started[c] == nil {
			r.started[c] = map[int]bool{}
		}
		r.started[c][i] = true
	}
	r.mu.Unlock()
	r.mu.Lock()
	r.kept = append(r.kept, keptReq{req: req, conn: req.ConnectionID(), c: c, i: i})
	r.mu.Unlock()
	atomic.AddInt64(&r.inflight, 1)
	hv := ""
	if p != nil && p.hold {
		hv = "hold"
	}
	r.emit(tEvent{Ev: "hstart", C: c, Conn: req.ConnectionID(), Req: req.ID, I: i, K: kind, N: int(id), Val: hv})
	defer func() {
		atomic.AddInt64(&r.inflight, -1)
	}()
	holdAfter := p != nil && p.hold && p.kind == "starttls" && r.scen.Cfg["tls"] == "starttls" && r.scen.Cfg["tls_hold_after"] == "1"
	if p != nil && p.hold && !holdAfter {
		<-p.rel
		if r.scen.Cfg["async_release"] == "1" {
			// the handler goes on by itself a little later: nothing the harness does orders its Write with what the
			// connection goroutine does meanwhile (race-detector scenarios)
			ms := 40
			if v := r.scen.Cfg["async_ms"]; v != "" {
				fmt.Sscan(v, &ms)
			}
			time.Sleep(time.Duration(ms) * time.Millisecond)
		}
	}
	if p != nil && p.panic {
		r.emit(tEvent{Ev: "hpanic", C: c, Conn: req.ConnectionID(), Req: req.ID, I: i, K: kind})
		atomic.AddInt64(&r.inflight, -1)
		defer atomic.AddInt64(&r.inflight, 1)
		panic(fmt.Sprintf("deliberate handler panic %s/%d", c, i))
	}
	if p != nil && p.kind == "starttls" && r.scen.Cfg["tls"] == "starttls" {
		// a real upgrade: reply, then handshake on the raw connection (Request.StartTLS)
		er := req.NewExtendedResponse(gldap.WithResponseCode(gldap.ResultSuccess))
		er.SetResponseName(gldap.ExtendedOperationStartTLS)
		_ = w.Write(er)
		if r.scen.Cfg["tls_delay_after"] == "1" {
			time.Sleep(30 * time.Millisecond)
		}
		v := "tls-ok"
		if err := req.StartTLS(r.tlsSrv); err != nil {
			v = "tls-err"
		}
		if holdAfter {
			// the handler keeps working after the upgrade (auditing, marking the session secured, ...)
			<-p.rel
		}
		r.emit(tEvent{Ev: "hend", C: c, Conn: req.ConnectionID(), Req: req.ID, I: i, K: kind, Val: v})
		return
	}
	var resp gldap.Response
	notReading := false
	if r.scen.Cfg["async_release"] != "1" { // (there the handler must not touch the harness's own locks before it writes)
		r.mu.Lock()
		notReading = p != nil && r.clients[p.c] != nil && r.clients[p.c].isNoRead()
		r.mu.Unlock()
	}
	if notReading {
		// large enough to fill the socket buffers: the Write blocks
		resp = req.NewResponse(gldap.WithResponseCode(gldap.ResultSuccess), gldap.WithApplicationCode(respAppFor(kind)), gldap.WithDiagnosticMessage(strings.Repeat("x", 16<<20)))
	} else if !typed {
		resp = req.NewExtendedResponse(gldap.WithResponseCode(gldap.ResultSuccess))
	} else {
		resp = req.NewResponse(gldap.WithResponseCode(gldap.ResultSuccess), gldap.WithApplicationCode(respAppFor(kind)), gldap.WithDiagnosticMessage(fmt.Sprintf("%s/%d", c, i)))
	}
	err := w.Write(resp)
	es := ""
	if err != nil {
		es = "err"
	}
	r.emit(tEvent{Ev: "hend", C: c, Conn: req.ConnectionID(), Req: req.ID, I: i, K: kind, Val: es})
}

func (r *runner) byConnTag(id int) string { return r.byConn[id] }

// tagOf: the client tag of a connection ID: learned from a handler of that connection, otherwise assumed
// from the accept order (used to wait for events, and flagged in the event)
func (r *runner) tagOf(id int) (string, string) {
	if t, ok := r.byConn[id]; ok {
		return t, ""
	}
	off := r.extraConns
	if r.scen.Cfg["ready_dial"] == "1" {
		off++
	}
	for _, cl := range r.clients {
		if cl.idx+off == id {
			return cl.tag, "assumed"
		}
	}
	return "", ""
}

func respAppFor(kind string) int {
	switch kind {
	case "bind":
		return gldap.ApplicationBindResponse
	case "search":
		return gldap.ApplicationSearchResultDone
	case "modify":
		return gldap.ApplicationModifyResponse
	case "add":
		return gldap.ApplicationAddResponse
	case "delete":
		return gldap.ApplicationDelResponse
	}
	return gldap.ApplicationExtendedResponse
}

var (
	reqSymOnce sync.Once
	reqSymVal  *reqSym
)

// newReqSymCached: a request symbol table whose id mapping is the identity ("?<n>" for every id)
func newReqSymCached() *reqSym {
	reqSymOnce.Do(func() {
		reqSymVal = newReqSym()
		reqSymVal.rids = map[int64]string{}
	})
	return reqSymVal
}

// opFrame builds the request for frame i of a connection: operation kinds rotate
func opFrame(id int64, tag string, i int, seed int64) *berx.Node {
	dn := fmt.Sprintf("cn=%s-%d,dc=verif", tag, i)
	switch (int64(i) + seed) % 5 {
	case 0:
		return lx.Envelope(id, lx.BindReq(3, dn, "pw"), nil)
	case 1:
		return lx.Envelope(id, lx.SearchReq(dn, 2, 0, 0, 0, false, lx.FilterPresent("objectClass"), nil), nil)
	case 2:
		return lx.Envelope(id, lx.ModifyReq(dn, []lx.Change{{Op: 0, Attr: lx.Attr{Type: "a", Vals: []string{"v"}}}}), nil)
	case 3:
		return lx.Envelope(id, lx.AddReq(dn, []lx.Attr{{Type: "a", Vals: []string{"v"}}}), nil)
	}
	return lx.Envelope(id, lx.DelReq(dn), nil)
}

func (r *runner) frameBytes(cl *sClient, e sEvent) []byte {
	id := msgID(cl.idx, e.I)
	switch e.K {
	case "op":
		return opFrame(id, cl.tag, e.I, r.seed).Encode()
	case "starttls":
		b := lx.Envelope(id, lx.ExtReq(lx.OIDStartTLS), nil).Encode()
		if r.scen.Cfg["inject_plain"] == "1" {
			// a complete plaintext request glued behind the StartTLS request (same segment), as an injecting attacker would
			// place it: it must never be served (frame index 900 is not part of the model's behaviour)
			b = append(b, opFrame(msgID(cl.idx, 900), cl.tag, 900, r.seed).Encode()...)
		}
		return b
	case "unbind":
		if r.scen.Cfg["unbind_same_id"] == "1" && e.I > 1 {
			// an Unbind that carries the message id of the request sent just before it (which may still be in progress)
			id = msgID(cl.idx, e.I-1)
		}
		return lx.Envelope(id, lx.UnbindReq(), nil).Encode()
	case "bad":
		switch (int64(e.I) + r.seed) % 3 {
		case 0:
			return berx.Seq(berx.Int(id)).Encode() // envelope with one child: fails basic validation
		case 1:
			return lx.Envelope(id, berx.AppC(lx.AppCompareReq, berx.Str("cn=x"), berx.Seq(berx.Str("a"), berx.Str("b"))), nil).Encode() // unsupported operation
		}
		return lx.Envelope(id, lx.BindReq(2, "cn=x", "p"), nil).Encode() // bind, not LDAPv3
	case "partial":
		// the beginning of a frame: an envelope announcing 3 content bytes of which 2 are sent (any further byte completes it to an envelope with a single child).  Whatever is
		// sent later completes it to something that does not parse.
		return []byte{0x30, 0x03, 0x02, 0x01}
	}
	return nil
}

func (cl *sClient) isNoRead() bool {
	cl.mu.Lock()
	defer cl.mu.Unlock()
	return cl.noRead
}

func (r *runner) clientReader(cl *sClient) {
	defer close(cl.done)
	for {
		frame, err := berx.ReadFrame(cl.conn.R)
		if err != nil && cl.isNoRead() {
			if ne, ok := err.(net.Error); ok && ne.Timeout() {
				_ = cl.raw.SetReadDeadline(time.Time{})
				close(cl.parked)
				<-cl.readGate // the client does not read any more (until clean-up)
				return
			}
		}
		if err != nil {
			kind := "eof"
			if err != io.EOF {
				if strings.Contains(err.Error(), "reset") {
					kind = "rst"
				} else if err == io.ErrUnexpectedEOF {
					kind = "eof-midframe"
				} else if strings.Contains(err.Error(), "closed") {
					kind = "local-close"
				} else {
					kind = "garbage:" + err.Error()
				}
			}
			r.mu.Lock()
			held := r.heldOn(cl.tag)
			if cl.closedLocal {
				kind = "local-close"
			}
			r.mu.Unlock()
			if kind != "local-close" {
				r.emit(tEvent{Ev: "eof", C: cl.tag, Val: kind, Held: held})
			}
			return
		}
		m, perr := lx.ParseMsg(frame)
		if perr != nil {
			r.emit(tEvent{Ev: "garbage", C: cl.tag, Val: perr.Error()})
			continue
		}
		i := int(m.ID % 1000)
		ci := int(m.ID / 1000)
		ev := "recv"
		if m.ID == 0 && m.Tag == lx.AppExtResp {
			ev = "notice"
		}
		r.emit(tEvent{Ev: ev, C: cl.tag, I: i, N: m.Tag, M: int(m.Code), Val: m.Diag, Conn: ci})
		r.mu.Lock()
		pl := r.plans[m.ID]
		r.mu.Unlock()
		if pl != nil && pl.kind == "starttls" && r.scen.Cfg["tls"] == "starttls" && m.Code == 0 && cl.kind != "silent" {
			// a conforming client: ClientHello the moment the response has arrived
			if cl.tap != nil {
				cl.tap.mark()
			}
			v := "ok"
			if err := cl.conn.Upgrade(r.tlsCli, 5*time.Second); err != nil {
				v = "err: " + err.Error()
			}
			r.emit(tEvent{Ev: "tlsup", C: cl.tag, I: i, Val: v})
		}
	}
}

// planFrame registers the plan of a frame (hold / panic) and returns its bytes
func (r *runner) planFrame(e sEvent) []byte {
	r.mu.Lock()
	cl := r.clients[e.C]
	r.mu.Unlock()
	if cl == nil {
		return nil
	}
	p := &framePlan{c: e.C, i: e.I, kind: e.K, hold: e.Hold, panic: e.S == "panic", rel: make(chan struct{})}
	r.mu.Lock()
	r.plans[msgID(cl.idx, e.I)] = p
	r.mu.Unlock()
	b := r.frameBytes(cl, e)
	hv := ""
	if e.Hold {
		hv = "hold"
	}
	r.emit(tEvent{Ev: "send", C: e.C, I: e.I, K: e.K, N: len(b), Val: hv})
	return b
}

func (r *runner) step(e sEvent) {
	switch e.A {
	case "run":
		ropts := []gldap.Option{}
		if r.tlsSrv != nil && r.scen.Cfg["tls"] != "starttls" {
			ropts = append(ropts, gldap.WithTLSConfig(r.tlsSrv))
		}
		if r.scen.Cfg["tls"] == "emptycfg" {
			// a TLS configuration without certificates: the listener works, every handshake fails
			ropts = append(ropts, gldap.WithTLSConfig(&tls.Config{}))
		}
		r.emit(tEvent{Ev: "run_call"})
		go func() {
			err := r.srv.Run(r.runAddr, ropts...)
			v := "nil"
			if err != nil {
				v = "error"
			}
			xs := ""
			if r.scen.Cfg["expect_run_error"] == "1" {
				xs = "expect-error"
			}
			r.emit(tEvent{Ev: "run_ret", Val: v, S: xs})
			r.runRet <- err
		}()
		go func() { // Ready poller: dial on the first true
			for k := 0; k < 100000; k++ {
				if r.srv.Ready() {
					v := ""
					if r.scen.Cfg["ready_dial"] == "1" {
						c, err := net.DialTimeout("tcp", r.addr, 2*time.Second)
						v = "dial-ok"
						if err != nil {
							v = "dial-failed"
						} else {
							c.Close()
						}
					}
					r.emit(tEvent{Ev: "ready", Val: v})
					return
				}
				time.Sleep(20 * time.Microsecond)
			}
		}()
	case "dial":
		r.mu.Lock()
		idx := len(r.clients) + 1
		// registered before dialling: the server may already close (and report) the connection while we dial
		pre := &sClient{tag: e.C, idx: idx, done: make(chan struct{}), readGate: make(chan struct{}), parked: make(chan struct{}), dialAt: time.Now()}
		r.clients[e.C] = pre
		r.mu.Unlock()
		var conn *lx.Conn
		var err error
		var tap *tapConn
		kind := e.K
		if kind == "" {
			kind = "valid"
		}
		mode := r.scen.Cfg["tls"]
		switch {
		case (mode == "tls" || mode == "mtls" || mode == "mtls-vc" || mode == "anycert") && (kind == "valid" || kind == "nocert" || kind == "wrongca"):
			cfg := r.tlsCli.Clone()
			switch {
			case kind == "wrongca":
				// presented whatever list of acceptable CAs the server announces
				wc := r.wrongCert
				cfg.GetClientCertificate = func(*tls.CertificateRequestInfo) (*tls.Certificate, error) { return &wc, nil }
			case kind == "valid" && (mode == "mtls" || mode == "mtls-vc" || mode == "anycert"):
				cfg.Certificates = []tls.Certificate{r.clientCert}
			}
			conn, err = lx.DialTLS(r.addr, cfg, 3*time.Second)
		default:
			// plain TCP: no TLS configured, StartTLS later, or a client that never speaks TLS (silent / plaintext / garbage)
			conn, err = lx.Dial(r.addr, 3*time.Second)
			if err == nil && mode == "starttls" {
				tap = &tapConn{Conn: conn.C, onPlain: func(n int) { r.emit(tEvent{Ev: "plain_after_upgrade", C: e.C, N: n}) }}
				conn.C = tap
				conn.R = bufio.NewReader(tap)
			}
			if err == nil && kind == "garbage" {
				_, _ = conn.C.Write([]byte("GET / HTTP/1.0\r\n\r\n this is not a TLS handshake \x00\xff"))
			}
		}
		if err != nil {
			r.mu.Lock()
			pre.closedLocal = true
			r.mu.Unlock()
			r.emit(tEvent{Ev: "dial", C: e.C, Val: "failed", K: kind})
			return
		}
		cl := pre
		r.mu.Lock()
		cl.conn, cl.raw, cl.tap, cl.kind = conn, conn.C, tap, kind
		r.mu.Unlock()
		r.emit(tEvent{Ev: "dial", C: e.C, Val: "ok", N: idx, K: kind})
		go r.clientReader(cl)
		r.mu.Lock()
		n := idx + r.extraConns
		r.mu.Unlock()
		r.waitGate("run.registered", n)
	case "send", "sendpartial":
		r.mu.Lock()
		cl := r.clients[e.C]
		r.mu.Unlock()
		if cl == nil || cl.conn == nil {
			return
		}
		if r.scen.Cfg["late_route"] == "1" {
			r.lateRoute()
		}
		_ = cl.conn.SendRaw(r.planFrame(e))
		if r.scen.Cfg["wait_write_blocked"] == "1" && cl.isNoRead() {
			// let the handler of this request get as far as it can: inside Write, blocked, holding the connection's write lock
			// (synchronisation only: the first one reaches the gate, the later ones queue behind it)
			r.mu.Lock()
			first := r.gates["write.locked"] == 0
			r.mu.Unlock()
			if first {
				r.waitGate("write.locked", 1)
			}
			time.Sleep(120 * time.Millisecond)
		}
	case "sendmany": // several frames in one write (coalesced sends)
	case "release":
		r.mu.Lock()
		cl := r.clients[e.C]
		var p *framePlan
		if cl != nil {
			p = r.plans[msgID(cl.idx, e.I)]
			if r.relsd[e.C] == nil {
				r.relsd[e.C] = map[int]bool{}
			}
			r.relsd[e.C][e.I] = true
		}
		r.mu.Unlock()
		r.emit(tEvent{Ev: "release", C: e.C, I: e.I})
		if p != nil {
			p.release()
		}
	case "panic":
		r.mu.Lock()
		cl := r.clients[e.C]
		var p *framePlan
		if cl != nil {
			p = r.plans[msgID(cl.idx, e.I)]
			if r.relsd[e.C] == nil {
				r.relsd[e.C] = map[int]bool{}
			}
			r.relsd[e.C][e.I] = true
		}
		r.mu.Unlock()
		r.emit(tEvent{Ev: "release", C: e.C, I: e.I, Val: "panic"})
		if p != nil {
			p.panic = true
			p.release()
		}
	case "emfile":
		// descriptor exhaustion at accept time: leave room for exactly one more descriptor (the client's
		// socket), so that the server's accept fails with EMFILE; then lift the limit again
		var lim syscall.Rlimit
		if err := syscall.Getrlimit(syscall.RLIMIT_NOFILE, &lim); err != nil {
			r.emit(tEvent{Ev: "emfile", Val: "getrlimit failed"})
			return
		}
		old := lim
		lim.Cur = uint64(countFDs() + 1)
		_ = syscall.Setrlimit(syscall.RLIMIT_NOFILE, &lim)
		c, err := net.DialTimeout("tcp", r.addr, 2*time.Second)
		time.Sleep(40 * time.Millisecond) // the accept loop runs into the limit (and backs off) meanwhile
		_ = syscall.Setrlimit(syscall.RLIMIT_NOFILE, &old)
		v := "dialed"
		if err != nil {
			v = "dial failed: " + err.Error()
		} else {
			defer c.Close()
		}
		r.emit(tEvent{Ev: "emfile", Val: v})
		// the probe connection is accepted once descriptors are available again
		r.mu.Lock()
		r.extraConns++
		n := len(r.clients) + r.extraConns
		r.mu.Unlock()
		r.waitGate("run.registered", n)
	case "timeout":
		// the read deadline of this connection (armed when it was accepted) expires: wait for it.  Everything before this
		// step must have happened well before the deadline, or the scenario is out of step with the model ("desync")
		r.mu.Lock()
		cl := r.clients[e.C]
		r.mu.Unlock()
		if cl == nil || r.readTimeout == 0 {
			return
		}
		if time.Since(cl.dialAt) > r.readTimeout-r.readTimeout/4 {
			r.emit(tEvent{Ev: "desync", C: e.C, Val: "the steps before the timeout took too long"})
		}
		r.emit(tEvent{Ev: "timeout", C: e.C})
		if d := time.Until(cl.dialAt.Add(r.readTimeout)); d > 0 {
			time.Sleep(d)
		}
	case "sleep":
		// time passes on an idle session (harness-only: the model has no notion of time)
		r.emit(tEvent{Ev: "sleep", N: e.I})
		time.Sleep(time.Duration(e.I) * time.Millisecond)
	case "stopreading":
		r.mu.Lock()
		cl := r.clients[e.C]
		r.mu.Unlock()
		if cl != nil {
			cl.mu.Lock()
			cl.noRead = true
			cl.mu.Unlock()
			_ = cl.raw.SetReadDeadline(time.Now())
			// wait until the reader has really stopped: a read that is woken by its deadline still returns data (or the
			// server's FIN) that arrives before the goroutine runs again
			select {
			case <-cl.parked:
			case <-cl.done:
			case <-time.After(20 * time.Second):
			}
			r.emit(tEvent{Ev: "stopreading", C: e.C})
		}
	case "close":
		r.mu.Lock()
		cl := r.clients[e.C]
		r.mu.Unlock()
		if cl != nil {
			if r.scen.Cfg["reset"] == "1" {
				if tc, ok := cl.raw.(*net.TCPConn); ok {
					_ = tc.SetLinger(0) // the client goes away with a TCP reset
				}
			}
			r.emit(tEvent{Ev: "close", C: e.C, Val: r.scen.Cfg["reset"], Held: func() []int { r.mu.Lock(); defer r.mu.Unlock(); return r.heldOn(e.C) }()})
			r.mu.Lock()
			cl.closedLocal = true
			r.mu.Unlock()
			if cl.conn != nil {
				cl.conn.Close()
			}
		}
	case "reset":
		r.mu.Lock()
		cl := r.clients[e.C]
		r.mu.Unlock()
		if cl != nil {
			if tc, ok := cl.raw.(*net.TCPConn); ok {
				_ = tc.SetLinger(0)
			}
			r.emit(tEvent{Ev: "close", C: e.C, Val: "reset"})
			r.mu.Lock()
			cl.closedLocal = true
			r.mu.Unlock()
			if cl.conn != nil {
				cl.conn.Close()
			}
		}
	case "stop":
		ch := make(chan struct{})
		r.mu.Lock()
		r.stopRet[e.S] = ch
		cancelled0 := r.gates["stop.cancelled"]
		r.mu.Unlock()
		// In the model the server's own steps come before the environment's next action: this Stop has closed the listener
		// and cancelled (or returned) before the runner goes on. Without this a runner that is faster than the goroutine
		// calling Stop releases a handler "after Stop" that the server sees before Stop (synchronisation only).
		defer r.waitStopCancelled(cancelled0, ch)
		if r.scen.Cfg["stop_storm"] == "1" {
			// clients connecting at the very moment Stop is called (connections of the harness itself, not of the model:
			// they are closed at once; only Stop's and Run's return are judged in these scenarios)
			for g := 0; g < 4; g++ {
				go func() {
					for t0 := time.Now(); time.Since(t0) < 40*time.Millisecond; {
						if c, err := net.DialTimeout("tcp", r.addr, 100*time.Millisecond); err == nil {
							c.Close()
						}
					}
				}()
			}
			time.Sleep(time.Duration(r.seed%7) * 300 * time.Microsecond)
		}
		r.emit(tEvent{Ev: "stop_call", S: e.S})
		go func() {
			_ = r.srv.Stop()
			// sampled at the instant Stop returns
			r.emit(tEvent{Ev: "stop_ret", S: e.S, N: int(atomic.LoadInt64(&r.inflight)), M: int(atomic.LoadInt64(&r.ocStart) - atomic.LoadInt64(&r.ocDone)), Conn: int(atomic.LoadInt64(&r.ocDone))})
			close(ch)
		}()
	}
}

func (r *runner) onClose(id int) {
	atomic.AddInt64(&r.ocStart, 1)
	r.mu.Lock()
	c, how := r.tagOf(id)
	r.mu.Unlock()
	if r.scen.Cfg["ready_dial"] == "1" && id == 1 {
		// the Ready poller's own probe connection
		atomic.AddInt64(&r.ocDone, 1)
		r.emit(tEvent{Ev: "onclose_probe", Conn: id})
		return
	}
	r.emit(tEvent{Ev: "onclose_in", C: c, Conn: id, Val: how})
	if r.ocHold {
		<-r.ocRel
	}
	atomic.AddInt64(&r.ocDone, 1)
	r.emit(tEvent{Ev: "onclose_out", C: c, Conn: id, Val: how})
}

// runScenario executes one behaviour
func runScenario(sc *sScenario, out *hx.Out, seed int64, tlsSrv, tlsCli *tls.Config) {
	r := &runner{scen: sc, out: out, plans: map[int64]*framePlan{}, clients: map[string]*sClient{}, byConn: map[int]string{},
		runRet: make(chan error, 1), started: map[string]map[int]bool{}, relsd: map[string]map[int]bool{}, ocRel: make(chan struct{}),
		stopRet: map[string]chan struct{}{}, seed: seed, gates: map[string]int{}}
	r.cond = sync.NewCond(&r.mu)
	r.t0 = time.Now()
	atomic.StoreInt32(&scenPatience, 0)
	if ps := sc.Cfg["procs"]; ps != "" {
		// one P: a goroutine that has just been started does not run until its creator blocks - the schedule in which
		// "spawn, then go on without blocking" orderings show
		var n int
		fmt.Sscan(ps, &n)
		if n > 0 {
			defer runtime.GOMAXPROCS(runtime.GOMAXPROCS(n))
		}
	}
	if m := sc.Cfg["tls"]; m == "tls" || m == "starttls" || m == "mtls" || m == "mtls-vc" || m == "anycert" {
		tm := getTLSMaterial()
		r.tlsSrv, r.tlsCli, r.clientCert, r.wrongCert = tm.server, tm.client, tm.clientCert, tm.wrongCert
		if m == "mtls" {
			r.tlsSrv = tm.serverMTLS
		}
		if m == "anycert" {
			// a client certificate is required, any will do (the CA pool is set all the same, as configurations that
			// verify elsewhere have it)
			cfg := tm.server.Clone()
			cfg.ClientAuth = tls.RequireAnyClientCert
			cfg.ClientCAs = tm.serverMTLS.ClientCAs
			r.tlsSrv = cfg
		}
		if m == "mtls-vc" {
			// the same requirement expressed the other way crypto/tls offers: any client certificate is asked for and the
			// configuration's VerifyConnection callback verifies it against the CA
			pool := tm.serverMTLS.ClientCAs
			cfg := tm.server.Clone()
			cfg.ClientAuth = tls.RequireAnyClientCert
			cfg.VerifyConnection = func(cs tls.ConnectionState) error {
				if len(cs.PeerCertificates) == 0 {
					return fmt.Errorf("no client certificate")
				}
				_, err := cs.PeerCertificates[0].Verify(x509.VerifyOptions{Roots: pool, KeyUsages: []x509.ExtKeyUsage{x509.ExtKeyUsageClientAuth}})
				return err
			}
			r.tlsSrv = cfg
		}
	}
	r.ocHold = sc.Cfg["onclose_hold"] == "1"
	mux, _ := gldap.NewMux()
	_ = mux.DefaultRoute(r.handler)
	r.mux = mux
	if sc.Cfg["unbind_route"] == "1" {
		_ = mux.Unbind(func(w *gldap.ResponseWriter, req *gldap.Request) {
			i, c := 0, ""
			r.mu.Lock()
			if m, err := req.GetUnbindMessage(); err == nil {
				i = int(m.GetID() % 1000)
				if r.scen.Cfg["unbind_same_id"] == "1" {
					i = req.ID // (the message id is the previous request's there)
				}
				for _, cl := range r.clients {
					if int64(cl.idx) == m.GetID()/1000 {
						c = cl.tag
						r.byConn[req.ConnectionID()] = c
					}
				}
			}
			r.mu.Unlock()
			r.emit(tEvent{Ev: "hunbind", C: c, Conn: req.ConnectionID(), Req: req.ID, I: i, K: "unbind"})
			r.mu.Lock()
			var up *framePlan
			if m, err := req.GetUnbindMessage(); err == nil {
				up = r.plans[m.GetID()]
			}
			r.mu.Unlock()
			if up != nil && up.panic {
				panic("deliberate unbind handler panic")
			}
		})
	}
	sopts := []gldap.Option{gldap.WithLogger(hx.NullLogger()), gldap.WithOnClose(r.onClose)}
	if sc.Cfg["recover"] == "0" {
		sopts = append(sopts, gldap.WithDisablePanicRecovery())
	}
	if ms := sc.Cfg["read_timeout_ms"]; ms != "" {
		var n int
		fmt.Sscan(ms, &n)
		r.readTimeout = time.Duration(n) * time.Millisecond
		sopts = append(sopts, gldap.WithReadTimeout(r.readTimeout))
	}
	srv, err := gldap.NewServer(sopts...)
	if err != nil {
		panic(err)
	}
	_ = srv.Router(mux)
	r.srv = srv
	port := hx.FreePort()
	r.addr = fmt.Sprintf("127.0.0.1:%d", port)
	r.runAddr = r.addr
	switch sc.Cfg["addr"] {
	case "ipv6":
		r.addr, r.runAddr = fmt.Sprintf("[::1]:%d", port), fmt.Sprintf("[::1]:%d", port)
	case "ipv6-bare":
		r.addr, r.runAddr = fmt.Sprintf("[::1]:%d", port), fmt.Sprintf("::1:%d", port)
	case "host":
		r.runAddr = fmt.Sprintf("localhost:%d", port)
	case "port-only":
		r.runAddr = fmt.Sprintf(":%d", port)
	case "in-use":
		if l, err := net.Listen("tcp", r.addr); err == nil {
			defer l.Close()
		}
	case "in-use-gldap":
		// the port is held by another gldap server of this process
		if other, err := gldap.NewServer(gldap.WithLogger(hx.NullLogger())); err == nil {
			go func() { _ = other.Run(r.addr) }()
			for i := 0; i < 2000 && !other.Ready(); i++ {
				time.Sleep(time.Millisecond)
			}
			defer func() { _ = other.Stop() }()
		}
	case "bad-2brackets":
		r.runAddr = fmt.Sprintf("[[::1]]:%d", port)
	case "bad-bracket-close2":
		r.runAddr = fmt.Sprintf("[::1]]:%d", port)
	case "bad-bracket-open2":
		r.runAddr = fmt.Sprintf("[[::1]:%d", port)
	case "bad-brackets-ipv4":
		r.runAddr = fmt.Sprintf("[[127.0.0.1]]:%d", port)
	case "bad-brackets-front":
		r.runAddr = fmt.Sprintf("[]::1:%d", port)
	case "bad-noport":
		r.runAddr = "127.0.0.1"
	case "bad-ipv4":
		r.runAddr = fmt.Sprintf("127.0.0.1.9:%d", port)
	case "bad-ipv6":
		r.runAddr = fmt.Sprintf("[::zz]:%d", port)
	case "bad-bracket":
		r.runAddr = fmt.Sprintf("[::1:%d", port)
	case "bad-emptyport":
		r.runAddr = "127.0.0.1:"
	case "bad-brackets-empty":
		r.runAddr = fmt.Sprintf("[]:%d", port)
	case "bad-brackets-host":
		r.runAddr = fmt.Sprintf("[localhost]:%d", port)
	}
	cfgJSON, _ := json.Marshal(sc.Cfg)
	gldap.SetVerifGate(func(point string, ids ...int) {
		// (write.locked is counted only where the runner waits for it: taking the runner's lock inside gldap's Write orders
		// that Write after everything any goroutine logged before - which hides races from the race detector, C15-m1)
		if point == "run.registered" || point == "run.accepted" || point == "stop.cancelled" || (point == "write.locked" && sc.Cfg["wait_write_blocked"] == "1") {
			r.mu.Lock()
			r.gates[point]++
			r.cond.Broadcast()
			r.mu.Unlock()
		}
		if point == "run.pre_listen" && r.scen.Cfg["ready_dial"] == "1" {
			// a poller racing Run: before the listening socket exists Ready must be false
			v := "false"
			if r.srv.Ready() {
				v = "true"
			}
			r.emit(tEvent{Ev: "ready_sample", Val: v, K: "pre_listen"})
		}
		if g := r.gateHook; g != nil {
			g(point, ids...)
		}
		if !strings.HasPrefix(point, "write.") {
			// the code's own linearization points, for the refinement check (GldapRefine.tla)
			ev := tEvent{Ev: "gate", K: point}
			if len(ids) > 0 {
				ev.Conn = ids[0]
			}
			if len(ids) > 1 {
				ev.Req = ids[1]
			}
			r.emit(ev)
		}
	})
	defer gldap.SetVerifGate(nil)
	r.emit(tEvent{Ev: "reset", Val: string(cfgJSON)})
	// the steps: an environment action followed by the events the model predicts
	b := sc.Behaviour
	for k := 0; k < len(b); {
		e := b[k]
		if !envActions[e.A] {
			k++
			continue
		}
		var exp []sEvent
		r.emit(tEvent{Ev: "env_begin", K: e.A, C: e.C})
		if e.A == "send" && sc.Cfg["coalesce"] == "1" {
			// consecutive sends to one connection go out in a single write (one TCP segment)
			var buf []byte
			for k < len(b) {
				if b[k].A == "send" && b[k].C == e.C {
					buf = append(buf, r.planFrame(b[k])...)
					k++
					continue
				}
				if !envActions[b[k].A] {
					exp = append(exp, b[k])
					k++
					continue
				}
				break
			}
			r.mu.Lock()
			cl := r.clients[e.C]
			r.mu.Unlock()
			if cl != nil {
				if cl.conn != nil {
					_ = cl.conn.SendRaw(buf)
				}
			}
		} else {
			r.step(e)
			k++
			for k < len(b) && !envActions[b[k].A] {
				exp = append(exp, b[k])
				k++
			}
		}
		if sc.Cfg["unbind_route"] != "1" {
			// without an unbind route there is no handler event for an Unbind
			var f []sEvent
			for _, x := range exp {
				if x.A != "hunbind" {
					f = append(f, x)
				}
			}
			exp = f
		}
		// the notice of disconnection only matters (as a synchronisation point) when something is sent to that
		// connection later on; it is best effort otherwise
		var f []sEvent
		for _, x := range exp {
			if x.A == "notice" {
				later := false
				for _, y := range b[k:] {
					if y.A == "send" && y.C == x.C {
						later = true
					}
				}
				if !later {
					continue
				}
			}
			f = append(f, x)
		}
		exp = f
		r.expect(exp)
		if e.A == "release" && sc.Cfg["async_release"] == "1" {
			continue // the released handler finishes on its own time
		}
		r.waitFor(exp)
	}
	// final settle: a short quiet period, then the end-of-scenario samples
	time.Sleep(5 * time.Millisecond)
	if ms := sc.Cfg["settle_ms"]; ms != "" {
		var n int
		fmt.Sscan(ms, &n)
		time.Sleep(time.Duration(n) * time.Millisecond)
	}
	r.finish()
}

func (r *runner) finish() {
	// C09: asked again at the end of the scenario (connections have come and gone since), a kept request still reports the
	// connection ID it reported to its handler
	r.mu.Lock()
	kept := append([]keptReq(nil), r.kept...)
	r.mu.Unlock()
	for _, k := range kept {
		if now := k.req.ConnectionID(); now != k.conn {
			r.emit(tEvent{Ev: "connid_changed", C: k.c, I: k.i, Conn: now, N: k.conn})
		}
	}
	stopped := false
	r.mu.Lock()
	for _, ch := range r.stopRet {
		select {
		case <-ch:
			stopped = true
		default:
		}
	}
	r.mu.Unlock()
	runReturned := false
	select {
	case err := <-r.runRet:
		runReturned = true
		r.runRet <- err
	default:
	}
	if stopped && runReturned {
		// C12: the port is released: it can be bound again and connection attempts are refused
		bindable, refused := false, false
		if l, err := net.Listen("tcp", r.addr); err == nil {
			bindable = true
			l.Close()
		}
		if c, err := net.DialTimeout("tcp", r.addr, 500*time.Millisecond); err != nil {
			refused = true
		} else {
			c.Close()
		}
		r.emit(tEvent{Ev: "probe", N: b2i(bindable), M: b2i(refused)})
	}
	r.emit(tEvent{Ev: "end"})
	// cleanup (events after "end" are not part of the scenario)
	r.mu.Lock()
	for _, p := range r.plans {
		p.release()
	}
	r.mu.Unlock()
	if r.ocHold {
		close(r.ocRel)
		r.ocHold = false
	}
	for _, cl := range r.clients {
		if cl.isNoRead() {
			close(cl.readGate)
		}
		if cl.conn != nil {
			cl.conn.Close()
		}
	}
	done := make(chan struct{})
	go func() { _ = r.srv.Stop(); close(done) }()
	select {
	case <-done:
	case <-time.After(10 * time.Second):
		r.emit(tEvent{Ev: "cleanup_stop_timeout"})
	}
}

func b2i(b bool) int {
	if b {
		return 1
	}
	return 0
}

// ScenRun is the child: runs scenarios sequentially, flushing every event
func ScenRun(args []string) error {
	fs := flag.NewFlagSet("scenrun", flag.ExitOnError)
	in := fs.String("in", "", "scenarios")
	outp := fs.String("out", "", "trace")
	fs.Parse(args)
	var scens []*sScenario
	if err := hx.ReadLines(*in, func(b []byte) error {
		s := &sScenario{}
		if err := json.Unmarshal(b, s); err != nil {
			return err
		}
		scens = append(scens, s)
		return nil
	}); err != nil {
		return err
	}
	out, err := hx.NewOutSync(*outp)
	if err != nil {
		return err
	}
	var tlsSrv, tlsCli *tls.Config
	for _, s := range scens {
		if s.Cfg["tls"] != "" && s.Cfg["tls"] != "none" && tlsSrv == nil {
			tlsSrv, tlsCli, err = hx.SelfSignedTLS()
			if err != nil {
				return err
			}
		}
	}
	baseG, baseFD := runtime.NumGoroutine(), countFDs()
	for n, s := range scens {
		fmt.Printf("BEGIN %d\n", s.ID)
		t0 := time.Now()
		runScenario(s, out, hx.Seed()+int64(s.ID), tlsSrv, tlsCli)
		if d := time.Since(t0); d > 200*time.Millisecond && os.Getenv("VERIF_DEBUG") != "" {
			b, _ := json.Marshal(s)
			fmt.Fprintf(os.Stderr, "SLOW %v %s\n", d, b)
		}
		if n%50 == 49 || n == len(scens)-1 {
			// C08: nothing of the connections of the last scenarios remains
			g, fd := waitBaseline(baseG, baseFD)
			ev := tEvent{Seq: out.Seq(), Ev: "leak", N: g - baseG, M: fd - baseFD, Scen: s.ID, Held: []int{}}
			out.Write(ev)
		}
	}
	fmt.Printf("DONE\n")
	return out.Close()
}

func countFDs() int {
	es, err := os.ReadDir("/proc/self/fd")
	if err != nil {
		return 0
	}
	return len(es)
}

func waitBaseline(g0, fd0 int) (int, int) {
	deadline := time.Now().Add(3 * time.Second)
	for {
		g, fd := runtime.NumGoroutine(), countFDs()
		if (g <= g0 && fd <= fd0) || time.Now().After(deadline) {
			return g, fd
		}
		time.Sleep(5 * time.Millisecond)
	}
}

// Scen is the parent: splits the scenarios over child processes, watches for crashes and hangs
func Scen(args []string) error {
	fs := flag.NewFlagSet("scen", flag.ExitOnError)
	in := fs.String("in", "", "scenarios")
	outp := fs.String("out", "", "trace")
	par := fs.Int("par", 8, "child processes")
	bin := fs.String("bin", os.Args[0], "runner binary (e.g. a -race build)")
	fs.Parse(args)
	var lines [][]byte
	if err := hx.ReadLines(*in, func(b []byte) error { lines = append(lines, b); return nil }); err != nil {
		return err
	}
	if *par > len(lines) {
		*par = 1
	}
	parts := make([]string, *par)
	var wg sync.WaitGroup
	errs := make([]error, *par)
	for w := 0; w < *par; w++ {
		wg.Add(1)
		go func(w int) {
			defer wg.Done()
			var mine [][]byte
			for i := w; i < len(lines); i += *par {
				mine = append(mine, lines[i])
			}
			parts[w] = fmt.Sprintf("%s.part%d", *outp, w)
			errs[w] = superviseChild(*bin, mine, parts[w], w)
		}(w)
	}
	wg.Wait()
	for _, e := range errs {
		if e != nil {
			return e
		}
	}
	out, err := os.Create(*outp)
	if err != nil {
		return err
	}
	defer out.Close()
	errOut, _ := os.Create(*outp + ".stderr")
	for _, p := range parts {
		if f, err := os.Open(p); err == nil {
			_, _ = io.Copy(out, f)
			f.Close()
			os.Remove(p)
		}
		if f, err := os.Open(p + ".stderr"); err == nil {
			if errOut != nil {
				_, _ = io.Copy(errOut, f)
			}
			f.Close()
			os.Remove(p + ".stderr")
		}
	}
	if errOut != nil {
		errOut.Close()
	}
	return nil
}

func superviseChild(bin string, scens [][]byte, outPath string, w int) error {
	outF, err := os.Create(outPath)
	if err != nil {
		return err
	}
	defer outF.Close()
	pos := 0
	attempt := 0
	for pos < len(scens) {
		attempt++
		inPath := fmt.Sprintf("%s.in%d", outPath, attempt)
		f, _ := os.Create(inPath)
		for _, l := range scens[pos:] {
			f.Write(l)
			f.Write([]byte("\n"))
		}
		f.Close()
		tracePath := fmt.Sprintf("%s.tr%d", outPath, attempt)
		cmd := exec.Command(bin, "scenrun", "-in", inPath, "-out", tracePath)
		cmd.Env = append(os.Environ(), "GOTRACEBACK=all")
		stdout, _ := cmd.StdoutPipe()
		var stderr strings.Builder
		cmd.Stderr = &stderr
		if err := cmd.Start(); err != nil {
			return err
		}
		progress := make(chan string, 1024)
		go func() {
			sc := bufio.NewScanner(stdout)
			for sc.Scan() {
				progress <- sc.Text()
			}
			close(progress)
		}()
		begun, finished, curID := 0, false, 0
		hang := false
	loop:
		for {
			select {
			case l, ok := <-progress:
				if !ok {
					break loop
				}
				if strings.HasPrefix(l, "BEGIN ") {
					begun++
					fmt.Sscan(l[6:], &curID)
				}
				if l == "DONE" {
					finished = true
				}
			case <-time.After(120 * time.Second):
				hang = true
				_ = cmd.Process.Kill()
				break loop
			}
		}
		werr := cmd.Wait()
		if ef, err := os.OpenFile(outPath+".stderr", os.O_APPEND|os.O_CREATE|os.O_WRONLY, 0o644); err == nil {
			ef.WriteString(stderr.String())
			ef.Close()
		}
		if tf, err := os.Open(tracePath); err == nil {
			_, _ = io.Copy(outF, tf)
			tf.Close()
		}
		os.Remove(tracePath)
		os.Remove(inPath)
		if finished {
			return nil
		}
		// the child died (or hung) while running scenario curID
		site, gl := panicSite(stderr.String())
		ev := tEvent{Seq: 1 << 40, Ev: "proc_exit", Scen: curID, Val: site, N: b2i(gl), M: b2i(hang), Held: []int{}}
		if werr == nil && !hang {
			ev.Val = "exit 0 without DONE"
		}
		b, _ := json.Marshal(ev)
		outF.Write(append(b, '\n'))
		if begun == 0 {
			return fmt.Errorf("scenario child %d made no progress: %s", w, lastLines(stderr.String(), 5))
		}
		pos += begun
	}
	return nil
}

// ---- TLS material and the wiretap used for StartTLS scenarios

type tlsMaterial struct {
	server, serverMTLS, client *tls.Config
	clientCert, wrongCert      tls.Certificate
}

var (
	tlsOnce sync.Once
	tlsMat  *tlsMaterial
)

func getTLSMaterial() *tlsMaterial {
	tlsOnce.Do(func() {
		ca, err := hx.NewCA("verif-ca")
		if err != nil {
			panic(err)
		}
		other, err := hx.NewCA("some-other-ca")
		if err != nil {
			panic(err)
		}
		sc, _ := ca.Issue("server", false)
		cc, _ := ca.Issue("client", true)
		wc, _ := other.Issue("intruder", true)
		tlsMat = &tlsMaterial{
			server:     &tls.Config{Certificates: []tls.Certificate{sc}, MinVersion: tls.VersionTLS12},
			serverMTLS: &tls.Config{Certificates: []tls.Certificate{sc}, MinVersion: tls.VersionTLS12, ClientAuth: tls.RequireAndVerifyClientCert, ClientCAs: ca.Pool()},
			client:     &tls.Config{RootCAs: ca.Pool(), ServerName: "127.0.0.1"},
			clientCert: cc, wrongCert: wc,
		}
	})
	return tlsMat
}

// tapConn sits under the client's connection: once marked (the StartTLS response has been read) every byte
// received from the server must be part of a TLS record
type tapConn struct {
	net.Conn
	mu      sync.Mutex
	marked  bool
	need    int // bytes of the current record still to come
	hdr     []byte
	onPlain func(n int)
	bad     bool
}

func (t *tapConn) mark() { t.mu.Lock(); t.marked = true; t.mu.Unlock() }

func (t *tapConn) Read(p []byte) (int, error) {
	n, err := t.Conn.Read(p)
	t.mu.Lock()
	if t.marked && !t.bad {
		for _, b := range p[:n] {
			if t.need > 0 {
				t.need--
				continue
			}
			t.hdr = append(t.hdr, b)
			if len(t.hdr) == 5 {
				ok := t.hdr[0] >= 20 && t.hdr[0] <= 23 && t.hdr[1] == 3 && t.hdr[2] <= 4
				if !ok {
					t.bad = true
					if t.onPlain != nil {
						go t.onPlain(int(t.hdr[0]))
					}
					break
				}
				t.need = int(t.hdr[3])<<8 | int(t.hdr[4])
				t.hdr = t.hdr[:0]
			}
		}
	}
	t.mu.Unlock()
	return n, err
}
