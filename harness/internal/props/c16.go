package props

import (
	"encoding/json"
	"flag"
	"fmt"
	"io"
	"math/rand"
	"strconv"
	"strings"
	"time"

	"github.com/jimlambrt/gldap"

	"verif/harness/internal/hx"
	"verif/harness/internal/lx"
)

// ---- C16: exported helpers and constructors under recover()

type csForm struct {
	Tag  string `json:"tag"`
	Len  string `json:"len"`
	NB   int    `json:"nb"`
	Have int    `json:"have"`
	N    int    `json:"n"`
}
type sidForm struct {
	Kind string `json:"kind"`
	R    int    `json:"r"`
	A    int    `json:"a"`
	Len  int    `json:"len"`
	Subs int    `json:"subs"`
	Have int    `json:"have"`
}
type c16Vec struct {
	K     string   `json:"k"`
	Args  []csForm `json:"args,omitempty"`
	X     *sidForm `json:"x,omitempty"`
	C     string   `json:"c,omitempty"`
	Opts  []string `json:"opts"`
	Names []string `json:"names"`
	// observations
	Outcome     string        `json:"outcome"`
	Inverted    bool          `json:"inverted"`
	Str         []interface{} `json:"str"`
	Order       []string      `json:"order"`
	Stable      bool          `json:"stable"`
	ValuesEqual bool          `json:"values_equal"`
	Panic       string        `json:"panic,omitempty"`
}

func csBytes(f csForm, r *rand.Rand) (whole []byte, content []byte) {
	cn := f.N
	if cn < 0 {
		cn = 3 // a declared length nobody could send: the content behind it is short
	}
	content = make([]byte, cn)
	for i := range content {
		content[i] = byte(r.Intn(256))
	}
	var b []byte
	switch f.Tag {
	case "none":
		return nil, nil
	case "oct":
		b = append(b, 0x04)
	case "gen":
		b = append(b, 0x1b)
	default:
		b = append(b, []byte{0x02, 0x30, 0x0c, 0x80, 0xff, 0x00}[r.Intn(6)])
	}
	switch f.Len {
	case "none":
		return b, nil
	case "short":
		b = append(b, byte(f.N))
	case "indef":
		b = append(b, 0x80)
	case "ff":
		b = append(b, 0xff)
	case "long":
		b = append(b, 0x80|byte(f.NB))
		full := make([]byte, f.NB)
		n := f.N
		switch f.N {
		case -1:
			n = 1<<63 - 1
		case -2:
			n = 1<<63 - 10
		case -3:
			n = 1 << 62
		}
		for i := f.NB - 1; i >= 0; i-- {
			full[i] = byte(n)
			n >>= 8
		}
		if f.Have < f.NB {
			return append(b, full[:f.Have]...), nil
		}
		b = append(b, full...)
	}
	return append(b, content...), content
}

func optFor(tok string) gldap.Option {
	switch tok {
	case "nil":
		return nil
	case "code0":
		return gldap.WithResponseCode(0)
	case "code53":
		return gldap.WithResponseCode(53)
	case "app7":
		return gldap.WithApplicationCode(7)
	case "app30":
		return gldap.WithApplicationCode(30)
	case "diag":
		return gldap.WithDiagnosticMessage("diag")
	case "matched":
		return gldap.WithMatchedDN("cn=m")
	case "attrs0":
		return gldap.WithAttributes(map[string][]string{})
	case "attrs2":
		return gldap.WithAttributes(map[string][]string{"a": {"1", "2"}, "b": nil})
	case "crit":
		return gldap.WithCriticality(true)
	case "ctlval":
		return gldap.WithControlValue("v")
	case "grace0":
		return gldap.WithGraceAuthNsRemaining(0)
	case "grace5":
		return gldap.WithGraceAuthNsRemaining(5)
	case "expire0":
		return gldap.WithSecondsBeforeExpiration(0)
	case "expire9":
		return gldap.WithSecondsBeforeExpiration(9)
	case "err0":
		return gldap.WithErrorCode(0)
	case "err8":
		return gldap.WithErrorCode(8)
	case "err9":
		return gldap.WithErrorCode(9)
	case "errbig":
		return gldap.WithErrorCode(300)
	case "errhuge":
		return gldap.WithErrorCode(^uint(0) - 1)
	case "errmax":
		return gldap.WithErrorCode(^uint(0))
	case "label":
		return gldap.WithLabel("l")
	case "basedn":
		return gldap.WithBaseDN("dc=x")
	case "filter":
		return gldap.WithFilter("(a=b)")
	case "scope2":
		return gldap.WithScope(gldap.WholeSubtree)
	case "writer":
		return gldap.WithWriter(io.Discard)
	case "readtimeout":
		return gldap.WithReadTimeout(time.Second)
	case "onclose":
		return gldap.WithOnClose(func(int) {})
	}
	panic("unknown option token " + tok)
}

func guard(v *c16Vec, fn func() (bool, error)) {
	defer func() {
		if r := recover(); r != nil {
			v.Outcome = "panic"
			v.Panic = fmt.Sprint(r)
		}
	}()
	ok, err := fn()
	switch {
	case err != nil:
		v.Outcome = "err"
	case !ok:
		v.Outcome = "nil-result"
	default:
		v.Outcome = "ok"
	}
}

func C16(args []string) error {
	fs := flag.NewFlagSet("c16", flag.ExitOnError)
	in := fs.String("in", "", "vectors")
	outp := fs.String("out", "", "observations")
	fs.Parse(args)
	var vecs []*c16Vec
	if err := hx.ReadLines(*in, func(b []byte) error {
		v := &c16Vec{}
		if err := json.Unmarshal(b, v); err != nil {
			return err
		}
		if v.Opts == nil {
			v.Opts = []string{}
		}
		if v.Names == nil {
			v.Names = []string{}
		}
		v.Str, v.Order = []interface{}{}, []string{}
		vecs = append(vecs, v)
		return nil
	}); err != nil {
		return err
	}
	rnd := hx.Rand(16)
	var reqCons []*c16Vec
	for _, v := range vecs {
		switch v.K {
		case "convert":
			var ins []string
			var contents [][]byte
			for _, f := range v.Args {
				w, c := csBytes(f, rnd)
				ins = append(ins, string(w))
				contents = append(contents, c)
			}
			guard(v, func() (bool, error) {
				res, err := gldap.ConvertString(ins...)
				if err != nil {
					return false, err
				}
				v.Inverted = len(res) == len(ins)
				for i := range res {
					// for the indefinite form the "content" is simply what follows the length octet
					if v.Inverted && res[i] != string(contents[i]) {
						v.Inverted = false
					}
				}
				return true, nil
			})
		case "sid":
			x := v.X
			guard(v, func() (bool, error) {
				b, err := gldap.SIDBytes(uint8(x.R), uint16(x.A))
				if err != nil {
					return false, err
				}
				if x.Kind == "bytes" {
					b = append([]byte(nil), b...)
					b[1] = byte(x.Subs)
					for i := 0; i < x.Have; i++ {
						b = append(b, byte(i+1))
					}
					if x.Len < 8 {
						b = b[:x.Len]
					}
				}
				s, err := gldap.SIDBytesToString(b)
				if err != nil {
					return false, err
				}
				parts := strings.Split(s, "-")
				if len(parts) >= 3 {
					r, _ := strconv.Atoi(parts[1])
					a, _ := strconv.Atoi(parts[2])
					v.Str = []interface{}{parts[0], r, a}
				}
				return true, nil
			})
		case "entry":
			guard(v, func() (bool, error) {
				v.Stable, v.ValuesEqual = true, true
				for round := 0; round < 20; round++ {
					names := append([]string(nil), v.Names...)
					rnd.Shuffle(len(names), func(i, j int) { names[i], names[j] = names[j], names[i] })
					m := map[string][]string{}
					for _, n := range names {
						m[n] = []string{"v-" + n, "\x00\xff" + n}
					}
					e := gldap.NewEntry("cn=e", m)
					var order []string
					for _, a := range e.Attributes {
						order = append(order, a.Name)
						a.AddValue("x", "")
						if len(a.Values) != len(a.ByteValues) || len(a.Values) != 4 {
							v.ValuesEqual = false
						}
						for i := range a.Values {
							if i < len(a.ByteValues) && a.Values[i] != string(a.ByteValues[i]) {
								v.ValuesEqual = false
							}
						}
						if got := e.GetAttributeValues(a.Name); len(got) != len(a.Values) {
							v.ValuesEqual = false
						}
					}
					if order == nil {
						order = []string{}
					}
					if round == 0 {
						v.Order = order
					} else if strings.Join(order, "\x00") != strings.Join(v.Order, "\x00") {
						v.Stable = false
					}
				}
				return true, nil
			})
		case "cons":
			if strings.HasPrefix(v.C, "New") && strings.HasSuffix(v.C, "Response") || v.C == "NewSearchResponseEntry" {
				reqCons = append(reqCons, v)
				continue
			}
			var opts []gldap.Option
			for _, t := range v.Opts {
				opts = append(opts, optFor(t))
			}
			h := func(*gldap.ResponseWriter, *gldap.Request) {}
			guard(v, func() (bool, error) {
				mux, _ := gldap.NewMux()
				switch v.C {
				case "NewControlString":
					c, err := gldap.NewControlString("1.2.3", opts...)
					return c != nil, err
				case "NewControlStringEmpty":
					c, err := gldap.NewControlString("", opts...)
					return c != nil, err
				case "NewControlManageDsaIT":
					c, err := gldap.NewControlManageDsaIT(opts...)
					return c != nil, err
				case "NewControlMicrosoftNotification":
					c, err := gldap.NewControlMicrosoftNotification(opts...)
					return c != nil, err
				case "NewControlMicrosoftServerLinkTTL":
					c, err := gldap.NewControlMicrosoftServerLinkTTL(opts...)
					return c != nil, err
				case "NewControlMicrosoftShowDeleted":
					c, err := gldap.NewControlMicrosoftShowDeleted(opts...)
					return c != nil, err
				case "NewControlBeheraPasswordPolicy":
					c, err := gldap.NewControlBeheraPasswordPolicy(opts...)
					if err == nil && c != nil {
						_ = c.Encode()
						_ = c.String()
					}
					return c != nil, err
				case "NewControlPaging":
					c, err := gldap.NewControlPaging(7, opts...)
					if err == nil && c != nil {
						_ = c.Encode()
					}
					return c != nil, err
				case "NewMux":
					m, err := gldap.NewMux(opts...)
					return m != nil, err
				case "NewServer":
					s, err := gldap.NewServer(opts...)
					return s != nil, err
				case "NewEntry":
					return gldap.NewEntry("cn=x", nil) != nil && gldap.NewEntry("", map[string][]string{"a": nil}) != nil, nil
				case "NewEntryAttribute":
					return gldap.NewEntryAttribute("", nil) != nil, nil
				case "Mux.Bind":
					return true, mux.Bind(h, opts...)
				case "Mux.Search":
					return true, mux.Search(h, opts...)
				case "Mux.ExtendedOperation":
					return true, mux.ExtendedOperation(h, "1.2", opts...)
				case "Mux.Modify":
					return true, mux.Modify(h, opts...)
				case "Mux.Add":
					return true, mux.Add(h, opts...)
				case "Mux.Delete":
					return true, mux.Delete(h, opts...)
				case "Mux.Unbind":
					return true, mux.Unbind(h, opts...)
				case "Mux.DefaultRoute":
					return true, mux.DefaultRoute(h, opts...)
				case "Mux.BindNil":
					return true, mux.Bind(nil, opts...)
				case "Mux.SearchNil":
					return true, mux.Search(nil, opts...)
				case "Mux.ExtendedOperationNil":
					return true, mux.ExtendedOperation(nil, "1.2", opts...)
				case "Mux.ModifyNil":
					return true, mux.Modify(nil, opts...)
				case "Mux.AddNil":
					return true, mux.Add(nil, opts...)
				case "Mux.DeleteNil":
					return true, mux.Delete(nil, opts...)
				case "Mux.UnbindNil":
					return true, mux.Unbind(nil, opts...)
				case "Mux.DefaultRouteNil":
					return true, mux.DefaultRoute(nil, opts...)
				case "Server.RouterNil":
					s, err := gldap.NewServer(gldap.WithLogger(hx.NullLogger()))
					if err != nil {
						return false, nil
					}
					return true, s.Router(nil)
				}
				panic("unknown constructor " + v.C)
			})
		}
	}
	// constructors that need a live *Request run inside a handler; every response built is also written
	if len(reqCons) > 0 {
		if err := c16InHandler(reqCons); err != nil {
			return err
		}
	}
	out, err := hx.NewOut(*outp)
	if err != nil {
		return err
	}
	for _, v := range vecs {
		out.Write(v)
	}
	return out.Close()
}

func c16InHandler(vs []*c16Vec) error {
	done := make(chan struct{})
	mux, _ := gldap.NewMux()
	_ = mux.DefaultRoute(func(w *gldap.ResponseWriter, r *gldap.Request) {
		defer close(done)
		for _, v := range vs {
			var opts []gldap.Option
			for _, t := range v.Opts {
				opts = append(opts, optFor(t))
			}
			guard(v, func() (bool, error) {
				var resp gldap.Response
				switch v.C {
				case "NewResponse":
					x := r.NewResponse(opts...)
					resp = x
					if x == nil {
						return false, nil
					}
				case "NewBindResponse":
					x := r.NewBindResponse(opts...)
					resp = x
					if x == nil {
						return false, nil
					}
				case "NewExtendedResponse":
					x := r.NewExtendedResponse(opts...)
					resp = x
					if x == nil {
						return false, nil
					}
				case "NewSearchDoneResponse":
					x := r.NewSearchDoneResponse(opts...)
					resp = x
					if x == nil {
						return false, nil
					}
				case "NewSearchResponseEntry":
					x := r.NewSearchResponseEntry("cn=e", opts...)
					resp = x
					if x == nil {
						return false, nil
					}
				case "NewModifyResponse":
					x := r.NewModifyResponse(opts...)
					resp = x
					if x == nil {
						return false, nil
					}
				default:
					panic("unknown constructor " + v.C)
				}
				return true, w.Write(resp)
			})
		}
		_ = w.Write(r.NewResponse(gldap.WithDiagnosticMessage("END"), gldap.WithResponseCode(0)))
	})
	srv, err := hx.StartServer(mux, []gldap.Option{gldap.WithLogger(hx.NullLogger())}, nil)
	if err != nil {
		return err
	}
	defer srv.Stop(10 * time.Second)
	c, err := lx.Dial(srv.Addr, 5*time.Second)
	if err != nil {
		return err
	}
	defer c.Close()
	if err := c.Send(lx.Envelope(77, lx.BindReq(3, "cn=x", "p"), nil)); err != nil {
		return err
	}
	go func() { // drain
		for {
			if _, err := c.Recv(30 * time.Second); err != nil {
				return
			}
		}
	}()
	select {
	case <-done:
		return nil
	case <-time.After(120 * time.Second):
		return fmt.Errorf("c16: handler did not finish")
	}
}
