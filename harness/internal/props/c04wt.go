package props

import (
	"flag"
	"fmt"
	"net"
	"strings"
	"sync"
	"time"

	"github.com/jimlambrt/gldap"

	"verif/harness/internal/berx"
	"verif/harness/internal/hx"
	"verif/harness/internal/lx"
)

// ---- C04 with WithWriteTimeout: a handler writes a response far larger than the socket buffers to a client that does
// not read until the connection's write deadline has expired, then further responses.  Whatever Write reported as
// written must arrive, whole and with the request's message id.

type c04wtWrite struct {
	N   int    `json:"n"`
	OK  bool   `json:"ok"`
	Tag string `json:"tag"`
}
type c04wtObs struct {
	Round   int          `json:"round"`
	Writes  []c04wtWrite `json:"writes"`
	Frames  []string     `json:"frames"`  // tags of the whole frames the client parsed, in order
	Garbage string       `json:"garbage"` // anything that was not a whole, well-formed frame ("" or a truncated tail)
	TailCut bool         `json:"tailcut"` // the stream ended inside a frame (allowed only behind a Write that failed)
	IDsOK   bool         `json:"ids_ok"`
}

func C04WT(args []string) error {
	fs := flag.NewFlagSet("c04wt", flag.ExitOnError)
	outp := fs.String("out", "", "observations")
	fs.Parse(args)
	out, err := hx.NewOut(*outp)
	if err != nil {
		return err
	}
	for round, d := range []time.Duration{300 * time.Millisecond, 500 * time.Millisecond} {
		o := c04wtObs{Round: round + 1, Writes: []c04wtWrite{}, Frames: []string{}, IDsOK: true}
		var mu sync.Mutex
		done := make(chan struct{})
		mux, _ := gldap.NewMux()
		_ = mux.Search(func(w *gldap.ResponseWriter, r *gldap.Request) {
			defer close(done)
			rec := func(n int, tag string, err error) {
				mu.Lock()
				o.Writes = append(o.Writes, c04wtWrite{N: n, OK: err == nil, Tag: tag})
				mu.Unlock()
			}
			small := r.NewSearchResponseEntry("cn=first")
			small.AddAttribute("tag", []string{"w1"})
			rec(1, "w1", w.Write(small))
			big := r.NewSearchResponseEntry("cn=big")
			big.AddAttribute("tag", []string{"w2"})
			big.AddAttribute("blob", []string{strings.Repeat("B", 12<<20)})
			rec(2, "w2", w.Write(big))
			for n := 3; n <= 5; n++ {
				time.Sleep(150 * time.Millisecond)
				e := r.NewSearchResponseEntry(fmt.Sprintf("cn=after-%d", n))
				e.AddAttribute("tag", []string{fmt.Sprintf("w%d", n)})
				rec(n, fmt.Sprintf("w%d", n), w.Write(e))
			}
			rec(6, "w6", w.Write(r.NewSearchDoneResponse(gldap.WithResponseCode(gldap.ResultSuccess), gldap.WithDiagnosticMessage("w6"))))
		})
		srv, err := hx.StartServer(mux, []gldap.Option{gldap.WithLogger(hx.NullLogger()), gldap.WithWriteTimeout(d)}, nil)
		if err != nil {
			return err
		}
		dialAt := time.Now()
		c, err := lx.Dial(srv.Addr, 5*time.Second)
		if err != nil {
			srv.Stop(5 * time.Second)
			return err
		}
		const id = 4242
		_ = c.Send(lx.Envelope(id, lx.SearchReq("dc=x", 2, 0, 0, 0, false, lx.FilterEq("cn", "x"), nil), nil))
		// read nothing until the write deadline (armed when the connection was accepted) has long expired
		time.Sleep(time.Until(dialAt.Add(d + 500*time.Millisecond)))
		for {
			_ = c.C.SetReadDeadline(time.Now().Add(1500 * time.Millisecond))
			frame, err := berx.ReadFrame(c.R)
			if err != nil {
				if ne, ok := err.(net.Error); ok && ne.Timeout() {
					o.TailCut = len(frame) > 0
				} else if strings.HasPrefix(err.Error(), "berx:") {
					o.Garbage = err.Error()
				}
				break
			}
			m, perr := lx.ParseMsg(frame)
			if perr != nil {
				o.Garbage = perr.Error()
				break
			}
			if m.ID != id {
				o.IDsOK = false
			}
			tag := m.Diag
			for _, a := range m.Attrs {
				if a.Type == "tag" && len(a.Vals) == 1 {
					tag = a.Vals[0]
				}
			}
			o.Frames = append(o.Frames, tag)
		}
		select {
		case <-done:
		case <-time.After(10 * time.Second):
		}
		c.Close()
		srv.Stop(10 * time.Second)
		mu.Lock()
		out.Write(o)
		mu.Unlock()
	}
	return out.Close()
}
