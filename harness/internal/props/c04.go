package props

import (
	"encoding/json"
	"flag"
	"fmt"
	"strings"
	"sync"
	"time"

	"github.com/jimlambrt/gldap"

	"verif/harness/internal/hx"
	"verif/harness/internal/lx"
)

type rTok struct {
	O string          `json:"o"`
	N int64           `json:"n"`
	S string          `json:"s"`
	L json.RawMessage `json:"l"`
}
type rAttr struct {
	Name string   `json:"name"`
	Vals []string `json:"vals"`
}
type rSpec struct {
	Kind string `json:"kind"`
	Opts []rTok `json:"opts"`
	Sets []rTok `json:"sets"`
}
type rFrame struct {
	MsgidOK bool     `json:"msgid_ok"`
	Tag     int      `json:"tag"`
	Code    int64    `json:"code"`
	Matched string   `json:"matched"`
	Diag    string   `json:"diag"`
	DN      string   `json:"dn"`
	Attrs   []rAttr  `json:"attrs"`
	Ctls    []ctlRec `json:"ctls"`
}
type c04Vec struct {
	Resps   []rSpec  `json:"resps"`
	NFrames int      `json:"nframes"`
	ParseOK bool     `json:"parse_ok"`
	Frames  []rFrame `json:"frames"`
	Err     string   `json:"err,omitempty"`
}

type respSym struct {
	ctl  *ctlSym
	str  map[string]string
	rstr map[string]string
	mid  int64
}

func newRespSym() *respSym {
	r := hx.Rand(4)
	pools := [][2]string{{"short text", "Short Text"}, {strings.Repeat("L", 70000), strings.Repeat("L", 200)}, {"bin\x00\xff\x80", "\x04\x02ab"}, {strings.Repeat("é", 64), "x"}}
	p := pools[r.Intn(len(pools))]
	s := &respSym{ctl: newCtlSym(), str: map[string]string{"": "", "s1": p[0], "s2": p[1], "n1": "cn", "n2": "mail;lang-en", "n3": "objectClass", "dnsym": "cn=entry,dc=example"}, rstr: map[string]string{}}
	for k, v := range s.str {
		s.rstr[v] = k
	}
	s.mid = []int64{1, 32, 49, 80, 127, 128, 255, 256, 4096}[r.Intn(9)]
	return s
}
func (s *respSym) code(sym int64) int {
	switch sym {
	case 1:
		return int(s.mid)
	case 2:
		return 32767
	}
	return int(sym)
}
func (s *respSym) uncode(v int64) int64 {
	switch {
	case v == 32767:
		return 2
	case v == s.mid:
		return 1
	case v == 0:
		return 0
	}
	return 100000 + v
}
func (s *respSym) un(v string) string {
	if k, ok := s.rstr[v]; ok {
		return k
	}
	return "?" + v
}

// buildResponse interprets one response spec with the public API
func (s *respSym) buildResponse(r *gldap.Request, rs rSpec, w *gldap.ResponseWriter) (gldap.Response, error) {
	var opts []gldap.Option
	for _, t := range rs.Opts {
		switch t.O {
		case "nil":
			opts = append(opts, nil)
		case "code":
			opts = append(opts, gldap.WithResponseCode(s.code(t.N)))
		case "app":
			opts = append(opts, gldap.WithApplicationCode(int(t.N)))
		case "diag":
			opts = append(opts, gldap.WithDiagnosticMessage(s.str[t.S]))
		case "matched":
			opts = append(opts, gldap.WithMatchedDN(s.str[t.S]))
		case "attrs":
			var as []rAttr
			if err := json.Unmarshal(t.L, &as); err != nil {
				return nil, err
			}
			m := map[string][]string{}
			for _, a := range as {
				vals := []string{}
				for _, v := range a.Vals {
					vals = append(vals, s.str[v])
				}
				m[s.str[a.Name]] = vals
			}
			opts = append(opts, gldap.WithAttributes(m))
		default:
			return nil, fmt.Errorf("unknown option token %q", t.O)
		}
	}
	type baseSetter interface {
		SetResultCode(int)
		SetDiagnosticMessage(string)
		SetMatchedDN(string)
	}
	var resp gldap.Response
	var base baseSetter
	var bind *gldap.BindResponse
	var done *gldap.SearchResponseDone
	var entry *gldap.SearchResponseEntry
	var ext *gldap.ExtendedResponse
	switch rs.Kind {
	case "general":
		x := r.NewResponse(opts...)
		resp, base = x, x
	case "bind":
		bind = r.NewBindResponse(opts...)
		resp, base = bind, bind
	case "extended":
		ext = r.NewExtendedResponse(opts...)
		resp, base = ext, ext
	case "done":
		done = r.NewSearchDoneResponse(opts...)
		resp, base = done, done
	case "entry":
		entry = r.NewSearchResponseEntry(s.str["dnsym"], opts...)
		resp, base = entry, entry
	case "modify":
		x := r.NewModifyResponse(opts...)
		resp, base = x, x
	default:
		return nil, fmt.Errorf("unknown kind %q", rs.Kind)
	}
	for _, t := range rs.Sets {
		switch t.O {
		case "code":
			base.SetResultCode(s.code(t.N))
		case "diag":
			base.SetDiagnosticMessage(s.str[t.S])
		case "matched":
			base.SetMatchedDN(s.str[t.S])
		case "ctls":
			var cs []ctlRec
			if err := json.Unmarshal(t.L, &cs); err != nil {
				return nil, err
			}
			g, err := s.ctl.buildAll(cs)
			if err != nil {
				return nil, err
			}
			if bind != nil {
				bind.SetControls(g...)
			} else if done != nil {
				done.SetControls(g...)
			}
		case "addattr":
			var vs []string
			if err := json.Unmarshal(t.L, &vs); err != nil {
				return nil, err
			}
			vals := []string{}
			for _, v := range vs {
				vals = append(vals, s.str[v])
			}
			if entry != nil {
				entry.AddAttribute(s.str[t.S], vals)
			}
		case "name":
			if ext != nil {
				ext.SetResponseName(gldap.ExtendedOperationName(s.str[t.S]))
			}
		case "write":
			// the same response object is written now and again later (after further setters)
			_ = w.Write(resp)
		default:
			return nil, fmt.Errorf("unknown setter token %q", t.O)
		}
	}
	return resp, nil
}

func C04(args []string) error {
	fs := flag.NewFlagSet("c04", flag.ExitOnError)
	in := fs.String("in", "", "vectors")
	outp := fs.String("out", "", "observations")
	par := fs.Int("par", 8, "parallel connections")
	fs.Parse(args)
	var vecs []*c04Vec
	if err := hx.ReadLines(*in, func(b []byte) error {
		v := &c04Vec{}
		if err := json.Unmarshal(b, v); err != nil {
			return err
		}
		v.Frames = []rFrame{}
		vecs = append(vecs, v)
		return nil
	}); err != nil {
		return err
	}
	sym := newRespSym()
	base := int64(5_000_000)
	var mu sync.Mutex
	mux, _ := gldap.NewMux()
	_ = mux.DefaultRoute(func(w *gldap.ResponseWriter, r *gldap.Request) {
		// the request is a Delete whose message id names the vector
		m, err := r.GetDeleteMessage()
		if err != nil {
			return
		}
		i := int(m.GetID() - base)
		if i < 0 || i >= len(vecs) {
			return
		}
		for _, rs := range vecs[i].Resps {
			resp, err := sym.buildResponse(r, rs, w)
			if err != nil {
				mu.Lock()
				vecs[i].Err = err.Error()
				mu.Unlock()
				break
			}
			_ = w.Write(resp)
		}
		// sentinel: a response the spec does not describe, to delimit the frames of this request
		_ = w.Write(r.NewResponse(gldap.WithApplicationCode(30), gldap.WithResponseCode(0), gldap.WithDiagnosticMessage("END-OF-SCRIPT")))
	})
	srv, err := hx.StartServer(mux, []gldap.Option{gldap.WithLogger(hx.NullLogger())}, nil)
	if err != nil {
		return err
	}
	defer srv.Stop(10 * time.Second)
	errs := make([]error, *par)
	hx.Parallel(*par, *par, func(w int) {
		c, err := lx.Dial(srv.Addr, 5*time.Second)
		if err != nil {
			errs[w] = err
			return
		}
		defer func() { c.Close() }()
		// shift the connection's request counter away from anything message ids could equal
		for i := w; i < len(vecs); i += *par {
			v := vecs[i]
			if slowBudget.Exhausted() {
				v.Err = "skipped"
				continue
			}
			id := base + int64(i)
			if err := c.Send(lx.Envelope(id, lx.DelReq("cn=x"), nil)); err != nil {
				errs[w] = err
				return
			}
			v.ParseOK = true
			for {
				m, err := recvPatient(c, slowBudget.Timeout())
				if err != nil {
					slowBudget.Spent()
					v.ParseOK = false
					v.Err += " recv: " + err.Error()
					c.Close()
					if c, err = lx.Dial(srv.Addr, 5*time.Second); err != nil {
						errs[w] = err
						return
					}
					break
				}
				if m.Tag == 30 && m.Diag == "END-OF-SCRIPT" && m.ID == id {
					break
				}
				f := rFrame{MsgidOK: m.ID == id, Tag: m.Tag, Attrs: []rAttr{}, Ctls: []ctlRec{}}
				if m.HasRes {
					f.Code, f.Matched, f.Diag = sym.uncode(m.Code), sym.un(m.Matched), sym.un(m.Diag)
				} else {
					f.DN = sym.un(m.EntryDN)
					for _, a := range m.Attrs {
						ra := rAttr{Name: sym.un(a.Type), Vals: []string{}}
						for _, x := range a.Vals {
							ra.Vals = append(ra.Vals, sym.un(x))
						}
						f.Attrs = append(f.Attrs, ra)
					}
				}
				for _, cn := range m.Controls {
					f.Ctls = append(f.Ctls, sym.ctl.absWire(cn))
				}
				v.Frames = append(v.Frames, f)
			}
			v.NFrames = len(v.Frames)
		}
	})
	for _, e := range errs {
		if e != nil {
			return e
		}
	}
	out, err := hx.NewOut(*outp)
	if err != nil {
		return err
	}
	for _, v := range vecs {
		if v.Err != "skipped" {
			out.Write(v)
		}
	}
	return out.Close()
}
