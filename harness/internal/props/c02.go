package props

import (
	"bufio"
	"bytes"
	"encoding/hex"
	"encoding/json"
	"flag"
	"fmt"
	"io"
	"math/rand"
	"net"
	"os"
	"os/exec"
	"strings"
	"sync"
	"time"

	"github.com/hashicorp/go-hclog"
	"github.com/jimlambrt/gldap"

	"verif/harness/internal/hx"
)

// ---- C02: no byte sequence makes request decoding panic.
// Phase A: a worker subprocess runs the server with WithDisablePanicRecovery (a panic kills it; its stderr names the site).
// Phase B: an in-process server with recovery enabled and an error-level log sink (a swallowed panic leaves "Caught panic").

type c02Vec struct {
	Kind string `json:"kind"` // mutant | canon | bytes
	Of   string `json:"of"`
	Tree *tNode `json:"tree,omitempty"`
	Pred string `json:"pred"`
	Hex  string `json:"hex,omitempty"`
	What string `json:"what,omitempty"`
	// observations
	Outcome   string `json:"outcome"`   // delivered:<kind> | rejected | panic | hang
	OutcomeB  string `json:"outcome_b"` // with recovery enabled: delivered:<kind> | rejected | caught-panic | hang
	Site      string `json:"site,omitempty"`
	GldapSite bool   `json:"gldap_site"`
	frame     []byte
}

func c02Mux(sym *reqSym) *gldap.Mux {
	h := func(w *gldap.ResponseWriter, r *gldap.Request) {
		o, typed := sym.observe(r)
		kind := o.Op
		var resp gldap.Response
		if !typed {
			resp = r.NewExtendedResponse(gldap.WithResponseCode(gldap.ResultSuccess))
			resp.(*gldap.ExtendedResponse).SetDiagnosticMessage("kind:extended")
		} else {
			resp = r.NewResponse(gldap.WithResponseCode(gldap.ResultSuccess), gldap.WithDiagnosticMessage("kind:"+kind))
		}
		_ = w.Write(resp)
	}
	mux, _ := gldap.NewMux()
	_ = mux.DefaultRoute(h)
	_ = mux.Unbind(h)
	return mux
}

// C02Worker hosts the server without panic recovery; prints its address; exits when stdin closes
func C02Worker(args []string) error {
	sym := newReqSym()
	// debug level (output discarded): the logging branches of request reading are part of what is exercised
	dbg := hclog.New(&hclog.LoggerOptions{Level: hclog.Debug, Output: io.Discard})
	srv, err := hx.StartServer(c02Mux(sym), []gldap.Option{gldap.WithLogger(dbg), gldap.WithDisablePanicRecovery()}, nil)
	if err != nil {
		return err
	}
	fmt.Printf("ADDR %s\n", srv.Addr)
	os.Stdout.Sync()
	_, _ = io.Copy(io.Discard, os.Stdin)
	return nil
}

type c02Proc struct {
	cmd    *exec.Cmd
	stdin  io.WriteCloser
	stderr *bytes.Buffer
	addr   string
	done   chan error
}

func startC02Proc() (*c02Proc, error) {
	cmd := exec.Command(os.Args[0], "c02worker")
	cmd.Env = append(os.Environ(), "GOTRACEBACK=all")
	stdin, err := cmd.StdinPipe()
	if err != nil {
		return nil, err
	}
	stdout, err := cmd.StdoutPipe()
	if err != nil {
		return nil, err
	}
	p := &c02Proc{cmd: cmd, stdin: stdin, stderr: &bytes.Buffer{}, done: make(chan error, 1)}
	cmd.Stderr = p.stderr
	if err := cmd.Start(); err != nil {
		return nil, err
	}
	rd := bufio.NewReader(stdout)
	line, err := rd.ReadString('\n')
	if err != nil || !strings.HasPrefix(line, "ADDR ") {
		_ = cmd.Process.Kill()
		return nil, fmt.Errorf("worker did not start: %q %v %s", line, err, p.stderr.String())
	}
	p.addr = strings.TrimSpace(line[5:])
	go func() { p.done <- cmd.Wait() }()
	return p, nil
}

func (p *c02Proc) stop() {
	p.stdin.Close()
	select {
	case <-p.done:
	case <-time.After(3 * time.Second):
		_ = p.cmd.Process.Kill()
	}
}

// dead reports whether the worker has exited (waiting a little, a panic takes a moment to unwind)
func (p *c02Proc) dead(wait time.Duration) bool {
	select {
	case err := <-p.done:
		p.done <- err
		return true
	case <-time.After(wait):
		return false
	}
}

// exchangeRaw writes the frame, half-closes, and reads to EOF; returns delivered:<kind> | rejected | hang
func exchangeRaw(addr string, frame []byte, timeout time.Duration) (string, error) {
	c, err := net.DialTimeout("tcp", addr, 2*time.Second)
	if err != nil {
		return "", err
	}
	defer c.Close()
	_ = c.SetDeadline(time.Now().Add(timeout))
	if _, err := c.Write(frame); err != nil {
		return "rejected", nil
	}
	if tc, ok := c.(*net.TCPConn); ok {
		_ = tc.CloseWrite()
	}
	data, err := io.ReadAll(c)
	if i := bytes.Index(data, []byte("kind:")); i >= 0 {
		j := i + 5
		for j < len(data) && data[j] >= 'a' && data[j] <= 'z' {
			j++
		}
		return "delivered:" + string(data[i+5:j]), nil
	}
	if err != nil {
		if ne, ok := err.(net.Error); ok && ne.Timeout() {
			return "hang", nil
		}
	}
	return "rejected", nil
}

func panicSite(stderr string) (site string, gldapFrame bool) {
	i := strings.Index(stderr, "panic:")
	if i < 0 {
		return "", false
	}
	lines := strings.Split(stderr[i:], "\n")
	site = strings.TrimSpace(lines[0])
	headers := 0
	for k, l := range lines {
		if strings.HasPrefix(l, "github.com/jimlambrt/gldap.") || strings.HasPrefix(l, "github.com/jimlambrt/gldap/") {
			gldapFrame = true
			if k+1 < len(lines) {
				site += " @ " + strings.TrimSpace(l) + " " + strings.TrimSpace(lines[k+1])
			}
			break
		}
		if strings.HasPrefix(l, "goroutine ") {
			// only the stack of the panicking goroutine (the first one printed; a "[signal ...]" line may precede its header)
			headers++
			if headers > 1 {
				break
			}
		}
	}
	return site, gldapFrame
}

// tlvLengthOffsets returns the offsets of the first length octet of every TLV in b (recursively)
func tlvLengthOffsets(b []byte, base int, out *[]int) {
	for i := 0; i+2 <= len(b); {
		cons := b[i]&0x20 != 0
		j := i + 1
		if b[i]&0x1f == 0x1f {
			for j < len(b) && b[j]&0x80 != 0 {
				j++
			}
			j++
		}
		if j >= len(b) {
			return
		}
		*out = append(*out, base+j)
		l := int(b[j])
		hl := 1
		if l >= 0x80 {
			nb := l & 0x7f
			if nb == 0 || nb > 4 || j+1+nb > len(b) {
				return
			}
			l = 0
			for k := 0; k < nb; k++ {
				l = l<<8 | int(b[j+1+k])
			}
			hl = 1 + nb
		}
		start := j + hl
		if start+l > len(b) {
			return
		}
		if cons {
			tlvLengthOffsets(b[start:start+l], base+start, out)
		}
		i = start + l
	}
}

func byteLevelCases(canon [][]byte, names []string, rnd *rand.Rand, nrandom int) []*c02Vec {
	var out []*c02Vec
	add := func(of, what string, b []byte) {
		out = append(out, &c02Vec{Kind: "bytes", Of: of, Pred: "any", What: what, Hex: hex.EncodeToString(b), frame: b})
	}
	for ci, b := range canon {
		of := names[ci]
		for k := 1; k < len(b); k++ {
			add(of, fmt.Sprintf("truncated at %d", k), append([]byte(nil), b[:k]...))
		}
		var offs []int
		tlvLengthOffsets(b, 0, &offs)
		for _, off := range offs {
			if b[off] >= 0x80 {
				continue // canonical frames for this part use short lengths only
			}
			l := b[off]
			repl := [][]byte{{0}, {l - 1}, {l + 1}, {0x80}, {0x81, l}, {0x81, 0xff}, {0x82, 0, l}, {0x84, 0, 0, 0, l}, {0x84, 0, 0x10, 0, 0}, {0x88, 0, 0, 0, 0, 0, 0, 0, l}, {0x89, 1, 2, 3, 4, 5, 6, 7, 8, 9}, {0xff}, {0x7f}}
			for _, r := range repl {
				nb := append(append(append([]byte(nil), b[:off]...), r...), b[off+1:]...)
				add(of, fmt.Sprintf("length octet at %d -> %x", off, r), nb)
			}
		}
	}
	for i := 0; i < nrandom; i++ {
		b := append([]byte(nil), canon[rnd.Intn(len(canon))]...)
		switch i % 3 {
		case 0: // bit flips
			for k := 0; k < 1+rnd.Intn(3); k++ {
				p := rnd.Intn(len(b))
				b[p] ^= 1 << uint(rnd.Intn(8))
			}
			add("random", "bit flips", b)
		case 1: // random bytes behind a plausible envelope header
			n := 2 + rnd.Intn(60)
			body := make([]byte, n)
			rnd.Read(body)
			add("random", "random body", append([]byte{0x30, byte(n)}, body...))
		default: // byte substitution
			p := rnd.Intn(len(b))
			b[p] = byte(rnd.Intn(256))
			add("random", "byte substitution", b)
		}
	}
	// declared lengths are capped at 1 MiB: larger ones only exercise asn1-ber's allocator
	var kept []*c02Vec
	for _, v := range out {
		if declaredTooLarge(v.frame) {
			continue
		}
		kept = append(kept, v)
	}
	return kept
}

func declaredTooLarge(b []byte) bool {
	for i := 0; i+1 < len(b); i++ {
		if b[i] >= 0x83 && b[i] <= 0x88 {
			nb := int(b[i] & 0x7f)
			if i+nb < len(b) {
				var l uint64
				for k := 1; k <= nb; k++ {
					l = l<<8 | uint64(b[i+k])
				}
				if l > 1<<20 {
					return true
				}
			}
		}
	}
	return false
}

type syncBuf struct {
	mu sync.Mutex
	b  bytes.Buffer
}

func (s *syncBuf) Write(p []byte) (int, error) { s.mu.Lock(); defer s.mu.Unlock(); return s.b.Write(p) }
func (s *syncBuf) take() string {
	s.mu.Lock()
	defer s.mu.Unlock()
	out := s.b.String()
	s.b.Reset()
	return out
}

func C02(args []string) error {
	fs := flag.NewFlagSet("c02", flag.ExitOnError)
	in := fs.String("in", "", "mutant vectors (kind mutant|canon)")
	outp := fs.String("out", "", "observations")
	par := fs.Int("par", 8, "parallel workers")
	nrandom := fs.Int("random", 2000, "random byte-level cases")
	fs.Parse(args)
	sym := newReqSym()
	// byte-level cases are derived from short canonical frames
	short := newReqSym()
	short.str["s1"], short.str["s2"], short.str["s3"] = "cn=a", "pw", "x"
	var vecs []*c02Vec
	var canon [][]byte
	var canonNames []string
	if err := hx.ReadLines(*in, func(b []byte) error {
		v := &c02Vec{}
		if err := json.Unmarshal(b, v); err != nil {
			return err
		}
		switch v.Kind {
		case "canon":
			canon = append(canon, short.node(v.Tree).Encode())
			canonNames = append(canonNames, v.Of)
			v.frame = sym.node(v.Tree).Encode()
			v.Kind, v.Pred = "mutant", v.Of // the unmutated tree itself
		default:
			v.frame = sym.node(v.Tree).Encode()
		}
		v.Tree = nil
		v.Hex = ""
		vecs = append(vecs, v)
		return nil
	}); err != nil {
		return err
	}
	if len(canon) > 0 {
		vecs = append(vecs, byteLevelCases(canon, canonNames, hx.Rand(2), *nrandom)...)
	}
	// ---- phase A
	errs := make([]error, *par)
	hx.Parallel(*par, *par, func(w int) {
		p, err := startC02Proc()
		if err != nil {
			errs[w] = err
			return
		}
		defer func() { p.stop() }()
		for i := w; i < len(vecs); i += *par {
			v := vecs[i]
			out, err := exchangeRaw(p.addr, v.frame, 3*time.Second)
			if err != nil || p.dead(0) {
				// connection refused / worker gone: did it die on this frame or before?
				if p.dead(500 * time.Millisecond) {
					v.Outcome = "panic"
					v.Site, v.GldapSite = panicSite(p.stderr.String())
					if v.Site == "" {
						v.Site = "worker exited: " + lastLines(p.stderr.String(), 3)
					}
					if p, err = startC02Proc(); err != nil {
						errs[w] = err
						return
					}
					continue
				}
				errs[w] = fmt.Errorf("worker unreachable: %v", err)
				return
			}
			v.Outcome = out
			if out == "rejected" && p.dead(20*time.Millisecond) {
				// a panic closes the socket like a rejection does; the exit status tells them apart
				v.Outcome = "panic"
				v.Site, v.GldapSite = panicSite(p.stderr.String())
				if p, err = startC02Proc(); err != nil {
					errs[w] = err
					return
				}
			}
		}
	})
	for _, e := range errs {
		if e != nil {
			return e
		}
	}
	// ---- phase B: recovery enabled, log sink
	hx.Parallel(*par, *par, func(w int) {
		sink := &syncBuf{}
		logger := hclog.New(&hclog.LoggerOptions{Level: hclog.Error, Output: sink})
		closed := make(chan int, 16)
		srv, err := hx.StartServer(c02Mux(sym), []gldap.Option{gldap.WithLogger(logger), gldap.WithOnClose(func(id int) { closed <- id })}, nil)
		if err != nil {
			errs[w] = err
			return
		}
		defer srv.Stop(10 * time.Second)
		for i := w; i < len(vecs); i += *par {
			v := vecs[i]
			out, err := exchangeRaw(srv.Addr, v.frame, 3*time.Second)
			if err != nil {
				errs[w] = err
				return
			}
			select {
			case <-closed:
			case <-time.After(3 * time.Second):
			}
			v.OutcomeB = out
			if strings.Contains(sink.take(), "Caught panic") {
				v.OutcomeB = "caught-panic"
			}
		}
	})
	for _, e := range errs {
		if e != nil {
			return e
		}
	}
	out, err := hx.NewOut(*outp)
	if err != nil {
		return err
	}
	for _, v := range vecs {
		if v.Kind == "bytes" && v.Outcome != "panic" && v.OutcomeB != "caught-panic" && v.Outcome != "hang" {
			v.Hex = "" // keep the file small: the case is reproducible from its description only if it misbehaved
		}
		out.Write(v)
	}
	return out.Close()
}

func lastLines(s string, n int) string {
	ls := strings.Split(strings.TrimSpace(s), "\n")
	if len(ls) > n {
		ls = ls[len(ls)-n:]
	}
	return strings.Join(ls, " | ")
}

// C02Hex replays one byte-level case given as hex (both phases)
func C02Hex(args []string) error {
	if len(args) != 1 {
		return fmt.Errorf("usage: gv c02hex <hex>")
	}
	b, err := hex.DecodeString(args[0])
	if err != nil {
		return err
	}
	p, err := startC02Proc()
	if err != nil {
		return err
	}
	defer p.stop()
	out, err := exchangeRaw(p.addr, b, 3*time.Second)
	if p.dead(300 * time.Millisecond) {
		site, _ := panicSite(p.stderr.String())
		fmt.Println("outcome: panic", site)
		return nil
	}
	fmt.Println("outcome:", out, err)
	return nil
}
