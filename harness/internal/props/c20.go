package props

import (
	"encoding/json"
	"flag"
	"fmt"
	"github.com/jimlambrt/gldap"
	"github.com/jimlambrt/gldap/testdirectory"
	"sync"
	"sync/atomic"
	"time"

	"verif/harness/internal/berx"
	"verif/harness/internal/hx"
	"verif/harness/internal/lx"
)

// ---- C20 / C19-histories: replay Directory behaviours on the real test directory

type dChange struct {
	Op   string   `json:"op"`
	Name string   `json:"name"`
	Vals []string `json:"vals"`
}
type dEvent struct {
	Op    string              `json:"op"`
	DN    string              `json:"dn"`
	Attrs []dAttr             `json:"attrs"`
	Chs   []dChange           `json:"chs"`
	PW    string              `json:"pw"`
	B     bool                `json:"b"`
	Code  int                 `json:"code"`
	Found map[string][]dEntry `json:"found,omitempty"`
	Codes map[string]int      `json:"codes,omitempty"` // result code of each of those searches
	Gen   map[string][]dEntry `json:"gen,omitempty"`   // the same DNs through the route without base DN (base = entry DN)
	GCode map[string]int      `json:"gcodes,omitempty"`
	SID   map[string][]dEntry `json:"sid,omitempty"` // base <SID=...>: token groups
	SCode map[string]int      `json:"sidcodes,omitempty"`
	Trace int                 `json:"trace,omitempty"`
	Err   string              `json:"err,omitempty"`
}
type dBehaviour struct {
	Behaviour []dEvent `json:"behaviour"`
}

const (
	userBase  = "ou=people,dc=example,dc=org"
	groupBase = "ou=groups,dc=example,dc=org"
)

func newDir20Sym() *dirSym {
	r := hx.Rand(20)
	names := [][6]string{{"alice", "bob", "carol", "dave", "admins", "nobody"}, {"Al Ice", "b.o.b", "Carol-X", "d-ave", "Grp One", "n0"}}
	n := names[r.Intn(len(names))]
	vals := [][3]string{{"one", "two", "three"}, {"val 1", "VAL 1", "val 11"}, {"x", "\xc3\xa9t\xc3\xa9", "a=b,c"}}
	v := vals[r.Intn(len(vals))]
	pw := [][2]string{{"secret", "secret1"}, {"pw", "p"}}[r.Intn(2)]
	m := map[string]string{"": "",
		"u1": "cn=" + n[0] + "," + userBase, "u2": "cn=" + n[1] + "," + userBase, "n1": "cn=" + n[2] + "," + userBase, "n2": "cn=" + n[3] + "," + userBase,
		"g1": "cn=" + n[4] + "," + groupBase, "mz": "cn=" + n[5] + "," + userBase,
		"ub": "cn=bystander-" + n[5] + "," + userBase, "pb": "bystander-" + pw[0],
		"pu1": "cn=" + n[0] + ",ou=people", // a proper substring of u1's DN (the directory finds entries by substring)
		"t1":  "cn=tg " + n[4] + ",ou=tokens,dc=example,dc=org", "t2": "cn=tg2-" + n[0] + ",ou=tokens,dc=example,dc=org", "S1": "S-1-5-21-" + fmt.Sprint(1000+r.Intn(9000)), "S9": "S-1-9-9",
		"v1": v[0], "v2": v[1], "v3": v[2], "p": pw[0], "q": pw[1],
		"a1": "description", "a2": "mail", "a3": "sn", "password": "password", "member": "member"}
	return &dirSym{m: m}
}

func (s *dirSym) rev() map[string]string {
	out := map[string]string{}
	for k, v := range s.m {
		out[v] = k
	}
	return out
}

// abstract maps a concrete string back to its symbol; BER-wrapped octet strings are unwrapped first
func abstractVal(rev map[string]string, v string) string {
	if len(v) >= 2 && v[0] == 0x04 {
		if n, rest, err := berx.Parse([]byte(v)); err == nil && len(rest) == 0 && !n.Cons {
			if sym, ok := rev[string(n.Val)]; ok {
				return "w:" + sym
			}
		}
	}
	if sym, ok := rev[v]; ok {
		return sym
	}
	return "?" + v
}

type dirClient struct {
	c     *lx.Conn
	msgid int64
}

func (d *dirClient) simple(op *berx.Node, want int) (int, error) {
	d.msgid += 5
	if err := d.c.Send(lx.Envelope(d.msgid, op, nil)); err != nil {
		return -1, err
	}
	m, err := recvPatient(d.c, 5*time.Second)
	if err != nil {
		return -1, err
	}
	if m.ID != d.msgid || m.Tag != want {
		return -1, fmt.Errorf("unexpected reply id=%d tag=%d (want id=%d tag=%d)", m.ID, m.Tag, d.msgid, want)
	}
	return int(m.Code), nil
}

func (d *dirClient) search(base, dn string, rev map[string]string) ([]dEntry, int, error) {
	// "(<dn>)" is the equality filter <first rdn attr>=<rest>
	eq := -1
	for i := 0; i < len(dn); i++ {
		if dn[i] == '=' {
			eq = i
			break
		}
	}
	return d.searchF(base, lx.FilterEq(dn[:eq], dn[eq+1:]), rev)
}

func (d *dirClient) searchF(base string, f *berx.Node, rev map[string]string) ([]dEntry, int, error) {
	d.msgid += 5
	// the size limit alternates between none, exactly the number of entries a lookup by DN can match, and a large one
	limit := []int64{0, 1, 1000}[(d.msgid/5)%3]
	if err := d.c.Send(lx.Envelope(d.msgid, lx.SearchReq(base, 2, 0, limit, 0, false, f, nil), nil)); err != nil {
		return nil, -1, err
	}
	out := []dEntry{}
	for {
		m, err := recvPatient(d.c, 5*time.Second)
		if err != nil {
			return nil, -1, err
		}
		if m.ID != d.msgid {
			return nil, -1, fmt.Errorf("search reply with id %d (want %d)", m.ID, d.msgid)
		}
		if m.Tag == lx.AppSearchEntry {
			e := dEntry{DN: abstractVal(rev, m.EntryDN), Attrs: []dAttr{}}
			for _, a := range m.Attrs {
				da := dAttr{Name: abstractVal(rev, a.Type), Vals: []string{}}
				for _, v := range a.Vals {
					da.Vals = append(da.Vals, abstractVal(rev, v))
				}
				e.Attrs = append(e.Attrs, da)
			}
			out = append(out, e)
			continue
		}
		if m.Tag != lx.AppSearchDone {
			return nil, -1, fmt.Errorf("search reply with tag %d", m.Tag)
		}
		return out, int(m.Code), nil
	}
}

func C20(args []string) error {
	fs := flag.NewFlagSet("c20", flag.ExitOnError)
	in := fs.String("in", "", "behaviours")
	outp := fs.String("out", "", "trace")
	par := fs.Int("par", 4, "parallel directories")
	bgbind := fs.Bool("bgbind", false, "another client keeps binding as the bystander user while the behaviours run")
	churn := fs.Bool("churn", false, "call the directory's getters and Set* methods (those that do not change what the model holds) while clients are served")
	fs.Parse(args)
	c20Churn = *churn
	c20BgBind = *bgbind
	var bs []dBehaviour
	if err := hx.ReadLines(*in, func(b []byte) error {
		var v dBehaviour
		if err := json.Unmarshal(b, &v); err != nil {
			return err
		}
		bs = append(bs, v)
		return nil
	}); err != nil {
		return err
	}
	sym := newDir20Sym()
	if *par > len(bs) {
		*par = 1
	}
	parts := make([][]dEvent, len(bs))
	errs := make([]error, *par)
	hx.Parallel(*par, *par, func(w int) {
		errs[w] = c20Worker(w, *par, bs, sym, parts)
	})
	for _, e := range errs {
		if e != nil {
			return e
		}
	}
	out, err := hx.NewOut(*outp)
	if err != nil {
		return err
	}
	for _, p := range parts {
		for _, e := range p {
			out.Write(e)
		}
	}
	return out.Close()
}

var c20Churn, c20BgBind bool

func c20Worker(w, par int, bs []dBehaviour, sym *dirSym, parts [][]dEvent) error {
	transport := w % 2 // even workers: plain; odd workers: TLS
	var dopts []testdirectory.Option
	if c20BgBind {
		tt := &testdirectory.Logger{Logger: hx.NullLogger()}
		dopts = append(dopts, testdirectory.WithLogger(tt, hx.SlowLogger{Logger: hx.NullLogger()}))
	}
	d, err := hx.StartDir(transport == 0, false, dopts...)
	if err != nil {
		return err
	}
	defer d.Stop(10 * time.Second)
	dial := func() (*lx.Conn, error) {
		if transport == 0 {
			return lx.Dial(d.Addr, 5*time.Second)
		}
		return lx.DialTLS(d.Addr, d.ClientTLS(), 5*time.Second)
	}
	var clients [2]*dirClient
	for i := range clients {
		c, err := dial()
		if err != nil {
			return err
		}
		defer c.Close()
		clients[i] = &dirClient{c: c, msgid: int64(1000 * (i + 1))}
	}
	var tgMu sync.Mutex // per directory: the token groups the behaviour installed last
	var curTG map[string][]*gldap.Entry
	if c20Churn {
		stopChurn := make(chan struct{})
		defer close(stopChurn)
		go func() {
			ctl, _ := gldap.NewControlString("1.2.3.4", gldap.WithControlValue("v"))
			for n := 0; ; n++ {
				select {
				case <-stopChurn:
					return
				default:
				}
				_ = len(d.D.Users()) + len(d.D.Groups()) + len(d.D.Controls()) + len(d.D.TokenGroups())
				_ = d.D.AllowAnonymousBind()
				if n%3 == 0 {
					d.D.SetControls(ctl)
				} else {
					d.D.SetControls()
				}
				tgMu.Lock() // re-installs what the behaviour last installed (the model holds the token groups)
				d.D.SetTokenGroups(curTG)
				tgMu.Unlock()
				time.Sleep(50 * time.Microsecond)
			}
		}()
		// ... and another client keeps searching users and groups while the behaviours add / modify / delete them
		go func() {
			bc, err := dial()
			if err != nil {
				return
			}
			defer bc.Close()
			bg := &dirClient{c: bc, msgid: 900000}
			r2 := sym.rev()
			for {
				select {
				case <-stopChurn:
					return
				default:
				}
				for _, dn := range []string{"u1", "n1"} {
					if _, _, err := bg.search(userBase, sym.c(dn), r2); err != nil {
						return
					}
				}
				if _, _, err := bg.search(groupBase, sym.c("g1"), r2); err != nil {
					return
				}
			}
		}()
	}
	rev := sym.rev()
	initUsers := []dEntry{{DN: "u1", Attrs: []dAttr{{"a1", []string{"v1"}}, {"a2", []string{"v2"}}, {"password", []string{"p"}}}}, {DN: "u2", Attrs: []dAttr{{"a1", []string{"v1"}}}},
		{DN: "ub", Attrs: []dAttr{{"password", []string{"pb"}}}}}
	// the bystander: present from every SetUsers(init) to the next SetUsers(none).  phase: -1 while a Set* call that
	// changes that is under way, otherwise 2*epoch + (1 if present)
	var phase, bgBad, bgN int64
	phase = -1
	var bgFirst atomic.Value
	setUsers := func(init bool) {
		old := atomic.SwapInt64(&phase, -1)
		if init {
			d.D.SetUsers(sym.entries(initUsers)...)
		} else {
			d.D.SetUsers()
		}
		ep := old/2 + 1
		if old < 0 {
			ep = atomic.AddInt64(&bgN, 0) + 1000
		}
		v := 2 * ep
		if init {
			v++
		}
		atomic.StoreInt64(&phase, v)
	}
	stopBg := make(chan struct{})
	bgDone := make(chan struct{})
	if c20BgBind {
		go func() {
			defer close(bgDone)
			bc, err := dial()
			if err != nil {
				return
			}
			defer bc.Close()
			for id := int64(700000); ; id += 3 {
				select {
				case <-stopBg:
					return
				default:
				}
				before := atomic.LoadInt64(&phase)
				code := bindCode(bc, id, sym.c("ub"), sym.c("pb"))
				after := atomic.LoadInt64(&phase)
				if code < 0 {
					return
				}
				if before < 0 || before != after {
					continue // a SetUsers call overlapped this bind: either outcome is right
				}
				atomic.AddInt64(&bgN, 1)
				want := 49
				if before%2 == 1 {
					want = 0
				}
				if code != want {
					if atomic.AddInt64(&bgBad, 1) == 1 {
						bgFirst.Store(fmt.Sprintf("bind as the bystander returned %d, expected %d", code, want))
					}
				}
			}
		}()
	} else {
		close(bgDone)
	}
	initGroups := []dEntry{{DN: "g1", Attrs: []dAttr{{"member", []string{"u1"}}}}}
	opcode := map[string]int64{"add": 0, "delete": 1, "replace": 2}
	turn := 0
	tg1 := map[string][]*gldap.Entry{sym.c("S1"): sym.entries([]dEntry{{DN: "t1", Attrs: []dAttr{{"a1", []string{"v1"}}}}, {DN: "t2", Attrs: []dAttr{}}})}
	setTG := func(m map[string][]*gldap.Entry) {
		tgMu.Lock()
		curTG = m
		d.D.SetTokenGroups(m)
		tgMu.Unlock()
	}
	for bi := w; bi < len(bs); bi += par {
		evs := []dEvent{{Op: "reset", Trace: bi + 1, Attrs: []dAttr{}, Chs: []dChange{}}}
		setUsers(true)
		d.D.SetGroups(sym.entries(initGroups)...)
		d.D.SetAllowAnonymousBind(false)
		setTG(nil)
		for _, ev := range bs[bi].Behaviour {
			cl := clients[turn%2]
			turn++
			o := ev
			if o.Attrs == nil {
				o.Attrs = []dAttr{}
			}
			if o.Chs == nil {
				o.Chs = []dChange{}
			}
			var err error
			switch ev.Op {
			case "add":
				var as []lx.Attr
				for _, a := range ev.Attrs {
					la := lx.Attr{Type: sym.c(a.Name)}
					for _, v := range a.Vals {
						la.Vals = append(la.Vals, sym.c(v))
					}
					as = append(as, la)
				}
				o.Code, err = cl.simple(lx.AddReq(sym.c(ev.DN), as), lx.AppAddResp)
			case "modify":
				var cs []lx.Change
				for _, c := range ev.Chs {
					la := lx.Attr{Type: sym.c(c.Name)}
					for _, v := range c.Vals {
						la.Vals = append(la.Vals, sym.c(v))
					}
					cs = append(cs, lx.Change{Op: opcode[c.Op], Attr: la})
				}
				o.Code, err = cl.simple(lx.ModifyReq(sym.c(ev.DN), cs), lx.AppModifyResp)
			case "delete":
				o.Code, err = cl.simple(lx.DelReq(sym.c(ev.DN)), lx.AppDelResp)
			case "bind":
				o.Code, err = cl.simple(lx.BindReq(3, sym.c(ev.DN), sym.c(ev.PW)), lx.AppBindResp)
			case "setusers":
				setUsers(ev.DN == "init")
			case "setgroups":
				d.D.SetGroups()
			case "setanon":
				d.D.SetAllowAnonymousBind(ev.B)
			case "settokengroups":
				if ev.DN == "tg1" {
					setTG(tg1)
				} else {
					setTG(nil)
				}
			default:
				err = fmt.Errorf("unknown op %q", ev.Op)
			}
			if err != nil {
				return fmt.Errorf("behaviour %d op %s: %w", bi+1, ev.Op, err)
			}
			o.Found, o.Codes, o.Gen, o.GCode, o.SID, o.SCode = map[string][]dEntry{}, map[string]int{}, map[string][]dEntry{}, map[string]int{}, map[string][]dEntry{}, map[string]int{}
			scl := clients[turn%2] // the other client looks
			for _, dn := range []string{"u1", "u2", "n1", "n2", "mz"} {
				es, code, err := scl.search(userBase, sym.c(dn), rev)
				if err != nil {
					return fmt.Errorf("behaviour %d search %s: %w", bi+1, dn, err)
				}
				o.Found[dn], o.Codes[dn] = es, code
			}
			es, code, err := scl.search(groupBase, sym.c("g1"), rev)
			if err != nil {
				return fmt.Errorf("behaviour %d search g1: %w", bi+1, err)
			}
			o.Found["g1"], o.Codes["g1"] = es, code
			// the route without base DN: base = the entry's DN
			for _, dn := range []string{"u1", "n1", "g1", "mz"} {
				es, code, err := scl.search(sym.c(dn), sym.c(dn), rev)
				if err != nil {
					return fmt.Errorf("behaviour %d generic search %s: %w", bi+1, dn, err)
				}
				o.Gen[dn], o.GCode[dn] = es, code
			}
			// ... and base <SID=...> (the filter matches no DN)
			for _, sid := range []string{"S1", "S9"} {
				es, code, err := scl.searchF("<SID="+sym.c(sid)+">", lx.FilterEq("objectClass", "nonesuch"), rev)
				if err != nil {
					return fmt.Errorf("behaviour %d SID search %s: %w", bi+1, sid, err)
				}
				o.SID[sid], o.SCode[sid] = es, code
			}
			evs = append(evs, o)
		}
		parts[bi] = evs
	}
	close(stopBg)
	<-bgDone
	if c20BgBind {
		// one summary line behind this worker's last behaviour
		last := -1
		for bi := w; bi < len(bs); bi += par {
			last = bi
		}
		if last >= 0 {
			sum := dEvent{Op: "bgbind", Attrs: []dAttr{}, Chs: []dChange{}, Code: int(atomic.LoadInt64(&bgBad)), Trace: int(atomic.LoadInt64(&bgN))}
			if s, ok := bgFirst.Load().(string); ok {
				sum.Err = s
			}
			parts[last] = append(parts[last], sum)
		}
	}
	return nil
}
