package props

import (
	"encoding/json"
	"flag"
	"fmt"
	"strings"
	"sync"
	"time"

	"github.com/jimlambrt/gldap"

	"verif/harness/internal/berx"
	"verif/harness/internal/hx"
	"verif/harness/internal/lx"
)

// ---- C03: route tables built through the public Mux API, every request sent
// over a real connection; which handlers ran and what came back.

type c03Route struct {
	Op     string `json:"op"`
	BaseDN string `json:"basedn"`
	Filter string `json:"filter"`
	Scope  int    `json:"scope"`
	Name   string `json:"name"`
}

type c03Vec struct {
	Kind   string     `json:"kind"`
	Reqs   []c03Route `json:"reqs,omitempty"`
	Routes []c03Route `json:"routes"`
	Def    int        `json:"def"`
	Unb    int        `json:"unb"`
}

type c03Label struct {
	K string `json:"k"`
	N int    `json:"n"`
}

type c03One struct {
	Req     c03Route   `json:"req"`
	Ran     []c03Label `json:"ran"`
	NFinal  int        `json:"nfinal"`
	MsgidOK bool       `json:"msgid_ok"`
	Tag     int        `json:"tag"`
	Code    int        `json:"code"`
	Diag    string     `json:"diag"`
}

type c03Obs struct {
	Vid    int        `json:"vid"`
	Routes []c03Route `json:"routes"`
	Def    int        `json:"def"`
	Unb    int        `json:"unb"`
	Obs    []c03One   `json:"obs"`
	UnbRan []c03Label `json:"unbran"`
	Err    string     `json:"err,omitempty"`
}

// concretisation of the symbols, chosen per seed
type c03Sym struct {
	dn, flt map[string]string
	fAttr   map[string][2]string // filter symbol -> (attr, value) sent on the wire
	name    map[string]string
}

func newC03Sym() *c03Sym {
	r := hx.Rand(3)
	dnPool := [][2]string{{"OU=People,DC=Example,DC=Org", "ou=groups,dc=example,dc=org"}, {"Cn=Ünïcode Ä,O=X", "cn=other,o=x"}, {"DC=A", "dc=b"}, {"uid=Mixed Case+sn=Q,dc=Z", "uid=zz"}}
	fPool := [][4]string{{"CN", "Alice", "cn", "bob"}, {"objectClass", "Person", "objectclass", "group"}, {"sAMAccountName", "EVE-01 Q", "uid", "x y"}}
	d := dnPool[r.Intn(len(dnPool))]
	f := fPool[r.Intn(len(fPool))]
	s := &c03Sym{dn: map[string]string{}, flt: map[string]string{}, fAttr: map[string][2]string{}, name: map[string]string{}}
	s.dn[""] = ""
	s.dn["dA"] = d[0]
	s.dn["da"] = strings.ToLower(d[0])
	s.dn["dB"] = d[1]
	s.flt[""] = ""
	s.fAttr["fA"] = [2]string{f[0], f[1]}
	s.fAttr["fa"] = [2]string{strings.ToLower(f[0]), strings.ToLower(f[1])}
	s.fAttr["fB"] = [2]string{f[2], f[3]}
	for k, v := range s.fAttr {
		s.flt[k] = "(" + v[0] + "=" + v[1] + ")"
	}
	s.name["n1"] = "1.3.6.1.4.1.4203.1.11.3"
	s.name["n2"] = "1.3.6.1.4.1.4203.1.11.1"
	s.name["n3"] = "1.2.3.4.5.6"
	s.name["tls"] = lx.OIDStartTLS
	return s
}

func (s *c03Sym) request(rq c03Route, msgid int64) *berx.Node {
	var op *berx.Node
	switch rq.Op {
	case "bind":
		op = lx.BindReq(3, "cn=x", "pw")
	case "search":
		f := s.fAttr[rq.Filter]
		op = lx.SearchReq(s.dn[rq.BaseDN], int64(rq.Scope), 0, 0, 0, false, lx.FilterEq(f[0], f[1]), nil)
	case "extended":
		op = lx.ExtReq(s.name[rq.Name])
	case "modify":
		op = lx.ModifyReq("cn=x", []lx.Change{{Op: 0, Attr: lx.Attr{Type: "a", Vals: []string{"v"}}}})
	case "add":
		op = lx.AddReq("cn=x", []lx.Attr{{Type: "a", Vals: []string{"v"}}})
	case "delete":
		op = lx.DelReq("cn=x")
	}
	return lx.Envelope(msgid, op, nil)
}

// slowBudget bounds the time a broken tree can cost: after a number of
// timeouts the per-wait bound drops (missing answers stay missing).
var slowBudget = hx.NewBudget(24, 3*time.Second, 250*time.Millisecond)

func C03(args []string) error {
	fs := flag.NewFlagSet("c03", flag.ExitOnError)
	in := fs.String("in", "", "vectors")
	outp := fs.String("out", "", "observations")
	par := fs.Int("par", 8, "parallel tables")
	fs.Parse(args)
	var reqs []c03Route
	var vecs []c03Vec
	err := hx.ReadLines(*in, func(b []byte) error {
		var v c03Vec
		if err := json.Unmarshal(b, &v); err != nil {
			return err
		}
		if v.Kind == "reqs" {
			reqs = v.Reqs
		} else {
			vecs = append(vecs, v)
		}
		return nil
	})
	if err != nil {
		return err
	}
	out, err := hx.NewOut(*outp)
	if err != nil {
		return err
	}
	sym := newC03Sym()
	hx.Parallel(len(vecs), *par, func(i int) {
		if slowBudget.Exhausted() {
			return
		}
		o := c03Table(i+1, vecs[i], reqs, sym)
		out.Write(o)
	})
	return out.Close()
}

func c03Table(vid int, v c03Vec, reqs []c03Route, sym *c03Sym) *c03Obs {
	o := &c03Obs{Vid: vid, Routes: v.Routes, Def: v.Def, Unb: v.Unb, Obs: []c03One{}, UnbRan: []c03Label{}}
	if o.Routes == nil {
		o.Routes = []c03Route{}
	}
	rnd := hx.Rand(int64(vid))
	// every fourth table is exercised by a client that waits for each answer and then re-uses the message id (allowed once
	// the earlier request is complete); the others pipeline all requests with distinct ids
	sameID := vid%4 == 3
	var mu sync.Mutex
	ran := map[int64][]c03Label{}
	var unbRan []c03Label
	handler := func(lbl c03Label) gldap.HandlerFunc {
		return func(w *gldap.ResponseWriter, r *gldap.Request) {
			// which message is this? ask every typed getter (exactly one applies)
			var id int64 = -1
			if m, err := r.GetSimpleBindMessage(); err == nil {
				id = m.GetID()
			} else if m, err := r.GetSearchMessage(); err == nil {
				id = m.GetID()
			} else if m, err := r.GetModifyMessage(); err == nil {
				id = m.GetID()
			} else if m, err := r.GetAddMessage(); err == nil {
				id = m.GetID()
			} else if m, err := r.GetDeleteMessage(); err == nil {
				id = m.GetID()
			} else if m, err := r.GetUnbindMessage(); err == nil {
				id = m.GetID()
				mu.Lock()
				unbRan = append(unbRan, lbl)
				mu.Unlock()
				return
			}
			var resp gldap.Response
			diag := fmt.Sprintf("%s%d", lbl.K, lbl.N)
			switch {
			case id == -1:
				// extended operation: no typed getter; NewExtendedResponse carries the id
				er := r.NewExtendedResponse(gldap.WithResponseCode(gldap.ResultSuccess))
				er.SetDiagnosticMessage(diag)
				resp = er
			default:
				resp = r.NewResponse(gldap.WithResponseCode(gldap.ResultSuccess), gldap.WithApplicationCode(gldap.ApplicationExtendedResponse), gldap.WithDiagnosticMessage(diag))
			}
			mu.Lock()
			if id == -1 || sameID {
				id = -int64(r.ID) // resolved below through the request ordinal
			}
			ran[id] = append(ran[id], lbl)
			mu.Unlock()
			_ = w.Write(resp)
		}
	}
	mux, err := gldap.NewMux()
	if err != nil {
		o.Err = err.Error()
		return o
	}
	// registration order of routes is the table's; default / unbind (re-)registrations are
	// interleaved at seeded positions
	type reg func() error
	var regs []reg
	for i, rt := range v.Routes {
		rt := rt
		h := handler(c03Label{"r", i + 1})
		regs = append(regs, func() error {
			switch rt.Op {
			case "bind":
				return mux.Bind(h)
			case "search":
				return mux.Search(h, gldap.WithBaseDN(sym.dn[rt.BaseDN]), gldap.WithFilter(sym.flt[rt.Filter]), gldap.WithScope(gldap.Scope(rt.Scope)), gldap.WithLabel(fmt.Sprintf("r%d", i+1)))
			case "extended":
				return mux.ExtendedOperation(h, gldap.ExtendedOperationName(sym.name[rt.Name]))
			case "modify":
				return mux.Modify(h)
			case "add":
				return mux.Add(h)
			case "delete":
				return mux.Delete(h)
			}
			return fmt.Errorf("unknown route op %q", rt.Op)
		})
	}
	// some registrations only happen after the mux has served its first request (a mux may be extended while it serves):
	// the last route of the table, or the current default route
	var late []reg
	lateKind := rnd.Intn(3) // 0: nothing late; 1: the current default route (if any); 2: the last route (if any)
	if lateKind == 2 && len(regs) > 0 {
		late = append(late, regs[len(regs)-1])
		regs = regs[:len(regs)-1]
	}
	insert := func(fn reg) {
		pos := rnd.Intn(len(regs) + 1)
		regs = append(regs, nil)
		copy(regs[pos+1:], regs[pos:])
		regs[pos] = fn
	}
	// generations must keep their relative order: insert g at or after g-1
	defPos := []int{}
	_ = defPos
	var ordered []reg
	ordered = append(ordered, regs...)
	regs = ordered
	for g := v.Def; g >= 1; g-- {
		g := g
		fn := func() error { return mux.DefaultRoute(handler(c03Label{"d", g})) }
		if g == v.Def && lateKind == 1 {
			late = append(late, fn)
		} else if g == v.Def {
			insert(fn)
		} else {
			// earlier generations go to the front so that the last registered is the highest
			regs = append([]reg{fn}, regs...)
		}
	}
	for g := v.Unb; g >= 1; g-- {
		g := g
		fn := func() error { return mux.Unbind(handler(c03Label{"u", g})) }
		if g == v.Unb {
			insert(fn)
		} else {
			regs = append([]reg{fn}, regs...)
		}
	}
	for _, fn := range regs {
		if err := fn(); err != nil {
			o.Err = err.Error()
			return o
		}
	}
	closed := make(chan int, 4)
	srv, err := hx.StartServer(mux, []gldap.Option{gldap.WithLogger(hx.LoggerFor(vid)), gldap.WithOnClose(func(id int) { closed <- id })}, nil)
	if err != nil {
		o.Err = err.Error()
		return o
	}
	defer srv.Stop(10 * time.Second)
	if len(late) > 0 {
		// warm-up: one request is served by the table as it is so far, then the remaining registrations are made
		if wc, err := lx.Dial(srv.Addr, 5*time.Second); err == nil {
			_ = wc.Send(lx.Envelope(77, lx.DelReq("cn=warm-up"), nil))
			_, _ = wc.Recv(2 * time.Second)
			wc.Close()
			select {
			case <-closed:
			case <-time.After(2 * time.Second):
			}
		}
		mu.Lock()
		for k := range ran {
			delete(ran, k) // what the warm-up request ran is not part of the observation
		}
		mu.Unlock()
		for _, fn := range late {
			if err := fn(); err != nil {
				o.Err = err.Error()
				return o
			}
		}
	}
	c, err := lx.Dial(srv.Addr, 5*time.Second)
	if err != nil {
		o.Err = err.Error()
		return o
	}
	defer c.Close()
	// message ids: distinct, never equal to the request's ordinal on the connection
	base := int64(1000 + rnd.Intn(1<<20))
	if rnd.Intn(4) == 0 {
		base = (1 << 31) - 1 - int64(len(reqs))*7
	}
	ids := make([]int64, len(reqs))
	var frames []*berx.Node
	byID := map[int64]int{}
	for i, rq := range reqs {
		ids[i] = base + int64(i)*7
		if sameID {
			ids[i] = base
		}
		byID[ids[i]] = i
		frames = append(frames, sym.request(rq, ids[i]))
	}
	if !sameID {
		if err := c.Send(frames...); err != nil {
			o.Err = "send: " + err.Error()
			return o
		}
	}
	type ans struct {
		n       int
		tag     int
		code    int64
		diag    string
		idKnown bool
	}
	got := make([]ans, len(reqs))
	stray := 0
	pending := len(reqs)
	if sameID {
		// one request at a time: send, read its final answer, go on with the same message id
		pending = 0
		for i := range reqs {
			if err := c.Send(frames[i]); err != nil {
				o.Err = "send: " + err.Error()
				return o
			}
			m, err := recvPatient(c, slowBudget.Timeout())
			if err != nil {
				slowBudget.Spent()
				break
			}
			got[i].n++
			got[i].tag, got[i].code, got[i].diag, got[i].idKnown = m.Tag, m.Code, m.Diag, m.ID == base
		}
	}
	for pending > 0 {
		m, err := recvPatient(c, slowBudget.Timeout())
		if err != nil {
			slowBudget.Spent()
			break // missing answers are reported as nfinal = 0
		}
		i, ok := byID[m.ID]
		if !ok {
			stray++
			continue
		}
		if got[i].n == 0 {
			pending--
		}
		got[i].n++
		got[i].tag, got[i].code, got[i].diag, got[i].idKnown = m.Tag, m.Code, m.Diag, true
	}
	// end the connection with an Unbind; OnClose is the barrier after which every handler has returned
	_ = c.Send(lx.Envelope(base-1, lx.UnbindReq(), nil))
	select {
	case <-closed:
	case <-time.After(5 * time.Second):
		o.Err = "no OnClose within 5s"
	}
	// late duplicates
	for {
		m, err := c.Recv(200 * time.Millisecond)
		if err != nil {
			break
		}
		if i, ok := byID[m.ID]; ok && !sameID {
			got[i].n++
		} else {
			stray++
		}
	}
	mu.Lock()
	defer mu.Unlock()
	for i, rq := range reqs {
		one := c03One{Req: rq, Ran: []c03Label{}, NFinal: got[i].n, MsgidOK: got[i].idKnown, Tag: got[i].tag, Code: int(got[i].code), Diag: got[i].diag}
		if !sameID {
			one.Ran = append(one.Ran, ran[ids[i]]...)
		}
		one.Ran = append(one.Ran, ran[-int64(i+1)]...) // extended requests (and same-id clients) are keyed by ordinal
		o.Obs = append(o.Obs, one)
	}
	o.UnbRan = append(o.UnbRan, unbRan...)
	if stray > 0 {
		o.Err += fmt.Sprintf(" stray=%d", stray)
	}
	return o
}
