package props

import (
	"crypto/tls"
	"flag"
	"fmt"
	"hash/fnv"
	"math/rand"
	"net"
	"os"
	"runtime"
	"strings"
	"sync"
	"sync/atomic"
	"time"

	"github.com/jimlambrt/gldap"

	"verif/harness/internal/berx"
	"verif/harness/internal/hx"
	"verif/harness/internal/lx"
)

// ---- C05: concurrent handlers writing on one connection.
// round = one connection, N requests pipelined, each handler writes M frames of assorted sizes.

type c05Round struct {
	ID        int
	Writers   int
	Frames    int
	Transport string // plain | tls | starttls
	SlowRead  bool
	Procs     int
	Gate      string // "" | "write.locked" | "write.pre_flush": hold the first writer there while the others try
	MaxSize   int
	StopMid   bool // the client reads nothing until Stop has been called while the handlers are stalled in Write
	Linger    bool // every frame is a search result entry and the handlers keep running until the client has received everything (or gives up)
	BadFirst  bool // every writer first tries to write a response that cannot be encoded (a typed nil; the panic is recovered by the handler)
	Debug     bool // the server logs at debug level
	WTimeout  int  // ms; > 0: the server is created WithWriteTimeout and the client reads nothing until the write deadline has expired
}

func payload(w, k, size int, seed int64) string {
	r := rand.New(rand.NewSource(seed + int64(w)*1000003 + int64(k)))
	b := make([]byte, size)
	for i := range b {
		b[i] = "abcdefghijklmnopqrstuvwxyz0123456789"[r.Intn(36)]
	}
	return string(b)
}

func frameDiag(w, k int, body string) string {
	h := fnv.New32a()
	h.Write([]byte(body))
	return fmt.Sprintf("w%d-%d-%d-%08x|%s", w, k, len(body), h.Sum32(), body)
}

// parseDiag checks a received frame's self-description
func parseDiag(d string) (w, k int, problem string) {
	i := strings.IndexByte(d, '|')
	if i < 0 {
		return 0, 0, "no header"
	}
	var n int
	var sum uint32
	if _, err := fmt.Sscanf(d[:i], "w%d-%d-%d-%08x", &w, &k, &n, &sum); err != nil {
		return 0, 0, "bad header"
	}
	body := d[i+1:]
	h := fnv.New32a()
	h.Write([]byte(body))
	switch {
	case len(body) != n:
		return w, k, fmt.Sprintf("length %d, announced %d", len(body), n)
	case h.Sum32() != sum:
		return w, k, "checksum mismatch"
	}
	return w, k, ""
}

func C05(args []string) error {
	fs := flag.NewFlagSet("c05", flag.ExitOnError)
	outp := fs.String("out", "", "trace")
	tier := fs.String("tier", "quick", "quick|thorough")
	fs.Parse(args)
	out, err := hx.NewOutSync(*outp)
	if err != nil {
		return err
	}
	seed := hx.Seed()
	rnd := hx.Rand(5)
	var rounds []c05Round
	id := 0
	add := func(r c05Round) { id++; r.ID = id; rounds = append(rounds, r) }
	// gate-forced overlap: the first writer is held inside the critical section
	for _, g := range []string{"write.locked", "write.pre_flush"} {
		for _, tr := range []string{"plain", "tls"} {
			add(c05Round{Writers: 3, Frames: 2, Transport: tr, Gate: g, MaxSize: 20000, Procs: 4})
		}
	}
	ns := []int{2, 8, 64}
	reps := 2
	if *tier == "thorough" {
		ns = []int{2, 8, 64, 300}
		reps = 6
	}
	for rep := 0; rep < reps; rep++ {
		for _, n := range ns {
			for _, tr := range []string{"plain", "tls", "starttls"} {
				frames := 6
				if n >= 64 {
					frames = 3
				}
				add(c05Round{Writers: n, Frames: frames, Transport: tr, SlowRead: rnd.Intn(2) == 0, Procs: []int{1, 2, 16}[rnd.Intn(3)], MaxSize: []int{300, 9000, 200000}[rnd.Intn(3)]})
				if last := &rounds[len(rounds)-1]; rep%2 == 1 && last.MaxSize <= 9000 {
					last.Debug = true
				}
			}
		}
	}
	for _, tr := range []string{"plain", "tls"} {
		// many frames smaller than the write buffer: the writers stall with their bytes sitting in the shared buffer
		add(c05Round{Writers: 8, Frames: 500, Transport: tr, MaxSize: 3500, Procs: 4, StopMid: true})
		add(c05Round{Writers: 8, Frames: 3, Transport: tr, MaxSize: 3 << 20, Procs: 4, StopMid: true})
	}
	// long-running searches: entries must reach the client while their handlers are still at work
	add(c05Round{Writers: 8, Frames: 3, Transport: "plain", MaxSize: 300, Procs: 4, Linger: true})
	add(c05Round{Writers: 4, Frames: 2, Transport: "tls", MaxSize: 900, Procs: 2, Linger: true})
	// a Write that panics while it encodes its response (recovered by the handler) leaves the connection's writer as it was
	add(c05Round{Writers: 8, Frames: 4, Transport: "plain", MaxSize: 9000, Procs: 4, BadFirst: true})
	add(c05Round{Writers: 3, Frames: 3, Transport: "tls", MaxSize: 300, Procs: 2, BadFirst: true})
	// WithWriteTimeout: the client stalls the writers beyond the connection's write deadline, then reads again
	add(c05Round{Writers: 6, Frames: 3, Transport: "plain", MaxSize: 3 << 20, Procs: 4, WTimeout: 400})
	add(c05Round{Writers: 12, Frames: 4, Transport: "plain", MaxSize: 2 << 20, Procs: 16, WTimeout: 300})
	// many short rounds of handlers that answer at the same moment with one small response each, logging at debug level:
	// what goes wrong only when the last two writers of a burst meet in a window of a microsecond
	nb := 150
	if *tier == "thorough" {
		nb = 1200
	}
	for k := 0; k < nb; k++ {
		add(c05Round{Writers: []int{2, 8, 32}[k%3], Frames: 1, Transport: "plain", MaxSize: 300, Procs: []int{4, 16, 2}[k%3], Debug: k%4 != 3})
	}
	tm := getTLSMaterial()
	for _, r := range rounds {
		if err := c05Run(r, out, seed, tm); err != nil {
			return fmt.Errorf("round %d: %w", r.ID, err)
		}
	}
	return out.Close()
}

func c05Run(rd c05Round, out *hx.Out, seed int64, tm *tlsMaterial) error {
	old := runtime.GOMAXPROCS(rd.Procs)
	defer runtime.GOMAXPROCS(old)
	emit := func(e tEvent) {
		e.Seq = out.Seq()
		e.Scen = rd.ID
		if e.Held == nil {
			e.Held = []int{}
		}
		out.Write(e)
	}
	emit(tEvent{Ev: "reset", Val: fmt.Sprintf("%+v", rd)})
	sizes := func(w, k int) int {
		r := rand.New(rand.NewSource(seed*31 + int64(w)*7919 + int64(k)))
		if rd.StopMid || (rd.WTimeout > 0 && (w == 1 || k > 1)) {
			return rd.MaxSize/4 + r.Intn(rd.MaxSize*3/4)
		}
		if rd.WTimeout > 0 {
			return 1 + r.Intn(200)
		}
		switch r.Intn(4) {
		case 0:
			return 1 + r.Intn(20)
		case 1:
			return 3000 + r.Intn(3000) // around the 4096-byte buffer
		default:
			return 1 + r.Intn(rd.MaxSize)
		}
	}
	var failed, nwritten int64
	release := make(chan struct{})
	gateHit := make(chan struct{}, 1)
	var gateOnce sync.Once
	started := make(chan struct{}, rd.Writers+1)
	var hwg sync.WaitGroup
	lingerDone := make(chan struct{})
	mux, _ := gldap.NewMux()
	_ = mux.ExtendedOperation(func(w *gldap.ResponseWriter, r *gldap.Request) {
		er := r.NewExtendedResponse(gldap.WithResponseCode(gldap.ResultSuccess))
		_ = w.Write(er)
		_ = r.StartTLS(tm.server)
	}, gldap.ExtendedOperationStartTLS)
	_ = mux.DefaultRoute(func(w *gldap.ResponseWriter, r *gldap.Request) {
		m, err := r.GetDeleteMessage()
		if err != nil {
			return
		}
		wid := int(m.GetID())
		hwg.Add(1)
		defer hwg.Done()
		started <- struct{}{}
		if rd.BadFirst {
			func() {
				defer func() { _ = recover() }()
				var none *gldap.BindResponse
				_ = w.Write(none)
			}()
		}
		for k := 1; k <= rd.Frames; k++ {
			body := payload(wid, k, sizes(wid, k), seed)
			var resp gldap.Response
			if k < rd.Frames || rd.Linger {
				e := r.NewSearchResponseEntry(frameDiag(wid, k, body)) // the DN carries the frame's description
				resp = e
			} else {
				resp = r.NewResponse(gldap.WithApplicationCode(gldap.ApplicationDelResponse), gldap.WithResponseCode(0), gldap.WithDiagnosticMessage(frameDiag(wid, k, body)))
			}
			err := w.Write(resp)
			v := "ok"
			if err != nil {
				v = "err"
				atomic.AddInt64(&failed, 1)
			}
			atomic.AddInt64(&nwritten, 1)
			emit(tEvent{Ev: "hwrite", C: fmt.Sprintf("w%d", wid), I: k, Val: v})
		}
		if rd.Linger {
			<-lingerDone // the search goes on (nothing more to send) until the client has seen it all
		}
	})
	if rd.Gate != "" {
		gldap.SetVerifGate(func(point string, ids ...int) {
			// hold request 1 (the first writer) at the gate; everybody else passes
			if point == rd.Gate && len(ids) == 2 && ids[1] == 1 {
				first := false
				gateOnce.Do(func() { first = true })
				if first {
					gateHit <- struct{}{}
					<-release
				}
			}
		})
		defer gldap.SetVerifGate(nil)
	}
	var ropts []gldap.Option
	if rd.Transport == "tls" {
		ropts = append(ropts, gldap.WithTLSConfig(tm.server))
	}
	sopts := []gldap.Option{gldap.WithLogger(hx.NullLogger())}
	if rd.Debug {
		// debug-level logging (into nothing): Write then does more between its steps (it prints the packet before it takes
		// the lock and logs after the flush), which moves where concurrent writers meet
		sopts = []gldap.Option{gldap.WithLogger(hx.DebugLogger())}
	}
	if rd.WTimeout > 0 {
		sopts = append(sopts, gldap.WithWriteTimeout(time.Duration(rd.WTimeout)*time.Millisecond))
	}
	dialAt := time.Now()
	srv, err := hx.StartServer(mux, sopts, ropts)
	if err != nil {
		return err
	}
	defer srv.Stop(15 * time.Second)
	var c *lx.Conn
	if rd.Transport == "tls" {
		c, err = lx.DialTLS(srv.Addr, tm.client, 5*time.Second)
	} else {
		c, err = lx.Dial(srv.Addr, 5*time.Second)
	}
	if err != nil {
		return err
	}
	defer c.Close()
	if rd.StopMid {
		// a small receive window: the writers stall after a few hundred kilobytes
		if tc, ok := c.C.(*net.TCPConn); ok {
			_ = tc.SetReadBuffer(4096)
		}
	}
	if rd.Transport == "starttls" {
		if err := c.Send(lx.Envelope(999999, lx.ExtReq(lx.OIDStartTLS), nil)); err != nil {
			return err
		}
		if _, err := c.Recv(5 * time.Second); err != nil {
			return fmt.Errorf("starttls response: %w", err)
		}
		if err := c.Upgrade(tm.client, 5*time.Second); err != nil {
			return fmt.Errorf("starttls upgrade: %w", err)
		}
	}
	_ = tls.VersionTLS12
	// the client: strict incremental parse of everything the server sends
	total := rd.Writers * rd.Frames
	recvDone := make(chan struct{})
	var nrecv, nother int64
	gotOf := func(m *lx.Msg) (int, int, string) {
		d := m.Diag
		if m.Tag == lx.AppSearchEntry {
			d = m.EntryDN
		}
		return parseDiag(d)
	}
	startReading := make(chan struct{})
	if !rd.StopMid && rd.WTimeout == 0 {
		close(startReading)
	}
	go func() {
		defer close(recvDone)
		<-startReading
		for int(atomic.LoadInt64(&nrecv)) < total {
			if rd.WTimeout > 0 {
				_ = c.C.SetReadDeadline(time.Now().Add(2 * time.Second))
			} else {
				_ = c.C.SetReadDeadline(time.Now().Add(slowBudget.Timeout() + 5*time.Second))
			}
			frame, err := berx.ReadFrame(c.R)
			if err != nil {
				if os.Getenv("VERIF_DEBUG") != "" {
					fmt.Fprintf(os.Stderr, "C05DBG round %d reader ends: %v (partial %d bytes) nrecv=%d\n", rd.ID, err, len(frame), atomic.LoadInt64(&nrecv))
				}
				if ne, ok := err.(interface{ Timeout() bool }); ok && ne.Timeout() && rd.WTimeout > 0 {
					// nothing more comes: after the write deadline every Write fails (the stream may end inside the frame
					// of the Write that was cut short)
					return
				}
				if ne, ok := err.(interface{ Timeout() bool }); ok && ne.Timeout() {
					slowBudget.Spent()
					return
				}
				if rd.StopMid && !strings.HasPrefix(err.Error(), "berx:") {
					// the server is stopping: the stream ends - at a frame boundary, inside the frame of a Write that
					// failed, or with a transport error (a TLS record cut short by the shutdown write deadline)
					return
				}
				emit(tEvent{Ev: "garbage", Val: "read: " + err.Error()})
				return
			}
			m, perr := lx.ParseMsg(frame)
			if perr == nil && m.ID == 0 && rd.StopMid {
				continue // the notice of disconnection
			}
			if perr != nil {
				emit(tEvent{Ev: "garbage", Val: perr.Error()})
				return
			}
			w, k, problem := gotOf(m)
			if int64(w) != m.ID && problem == "" {
				problem = fmt.Sprintf("frame of writer %d carries message id %d", w, m.ID)
			}
			atomic.AddInt64(&nrecv, 1)
			if w != 1 {
				atomic.AddInt64(&nother, 1)
			}
			emit(tEvent{Ev: "recv", C: fmt.Sprintf("w%d", w), I: k, Val: problem, N: len(frame)})
			if rd.SlowRead && k == 1 {
				time.Sleep(200 * time.Microsecond)
			}
		}
	}()
	// all requests in one write; with a gate, writer 1 first and the others once it sits at the gate
	var frames []*berx.Node
	for w := 1; w <= rd.Writers; w++ {
		frames = append(frames, lx.Envelope(int64(w), lx.DelReq(fmt.Sprintf("cn=w%d", w)), nil))
	}
	if rd.StopMid {
		if err := c.Send(frames...); err != nil {
			return err
		}
		for i := 0; i < rd.Writers; i++ {
			select {
			case <-started:
			case <-time.After(3 * time.Second):
			}
		}
		// wait until the handlers are stalled in Write (nobody reads): no Write returns any more
		for last, same, t0 := int64(-1), 0, time.Now(); same < 4 && time.Since(t0) < 5*time.Second; {
			time.Sleep(15 * time.Millisecond)
			if n := atomic.LoadInt64(&nwritten); n == last {
				same++
			} else {
				last, same = n, 0
			}
		}
		stopped := make(chan struct{})
		go func() { _ = srv.S.Stop(); close(stopped) }()
		time.Sleep(100 * time.Millisecond)
		if tc, ok := c.C.(*net.TCPConn); ok {
			_ = tc.SetReadBuffer(4 << 20) // now read at full speed
		}
		close(startReading)
		select {
		case <-stopped:
		case <-time.After(20 * time.Second):
			emit(tEvent{Ev: "stop_timeout"})
		}
	} else if rd.WTimeout > 0 {
		if err := c.Send(frames...); err != nil {
			return err
		}
		for i := 0; i < rd.Writers; i++ {
			select {
			case <-started:
			case <-time.After(3 * time.Second):
			}
		}
		// nobody reads until the connection's write deadline (armed when it was accepted) has expired
		if d := time.Until(dialAt.Add(time.Duration(rd.WTimeout)*time.Millisecond + 400*time.Millisecond)); d > 0 {
			time.Sleep(d)
		}
		close(startReading)
	} else if rd.Gate == "" {
		if err := c.Send(frames...); err != nil {
			return err
		}
	} else {
		if err := c.Send(frames[0]); err != nil {
			return err
		}
		select {
		case <-gateHit:
		case <-time.After(5 * time.Second):
			emit(tEvent{Ev: "gate_not_reached", Val: rd.Gate})
		}
		before := atomic.LoadInt64(&nother)
		if err := c.Send(frames[1:]...); err != nil {
			return err
		}
		for i := 0; i < rd.Writers; i++ { // every handler has started: the others are now at the lock
			select {
			case <-started:
			case <-time.After(3 * time.Second):
			}
		}
		time.Sleep(30 * time.Millisecond)
		if n := atomic.LoadInt64(&nother); n != before {
			// a whole frame of another writer got through while writer 1 was inside the critical section
			emit(tEvent{Ev: "gate_leak", N: int(n - before), Val: rd.Gate})
		}
		close(release)
	}
	select {
	case <-recvDone:
	case <-time.After(60 * time.Second):
	}
	close(lingerDone)
	// every handler has logged its last Write before the round ends
	hdone := make(chan struct{})
	go func() { hwg.Wait(); close(hdone) }()
	select {
	case <-hdone:
	case <-time.After(20 * time.Second):
	}
	v := ""
	if atomic.LoadInt64(&failed) > 0 {
		v = "writes-failed"
	}
	if rd.StopMid {
		v = "stopped" // what was accepted by the kernel shortly before the connection was torn down may not arrive
	}
	emit(tEvent{Ev: "end", Val: v, N: int(atomic.LoadInt64(&nrecv))})
	return nil
}
