package props

import (
	"errors"
	"net"
	"time"

	"verif/harness/internal/lx"
)

// recvPatient is Recv with one much longer second period when the first one runs out (hx.Budget.Patience): "no answer"
// is a verdict about the server only if it still holds on a machine that stalled for a few seconds.
func recvPatient(c *lx.Conn, d time.Duration) (*lx.Msg, error) {
	m, err := c.Recv(d)
	var ne net.Error
	if err != nil && errors.As(err, &ne) && ne.Timeout() {
		if ext := slowBudget.Patience(); ext > 0 {
			if m, err = c.Recv(ext); err == nil {
				slowBudget.PatienceBack()
			}
		}
	}
	return m, err
}
