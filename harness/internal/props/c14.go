package props

import (
	"encoding/json"
	"flag"
	"fmt"
	"sync"
	"time"

	"github.com/jimlambrt/gldap"

	"verif/harness/internal/berx"
	"verif/harness/internal/hx"
	"verif/harness/internal/lx"
)

type beheraArgs struct {
	G int64 `json:"g"`
	E int64 `json:"e"`
	C int64 `json:"c"`
}
type beheraRes struct {
	OK     bool  `json:"ok"`
	Grace  int64 `json:"grace"`
	Expire int64 `json:"expire"`
	Error  int64 `json:"error"`
}
type c14Vec struct {
	K  string      `json:"k"`
	Cs []ctlRec    `json:"cs"`
	A  *beheraArgs `json:"a,omitempty"`
	// observations
	ReqOK      bool       `json:"req_ok"`
	ReqErr     string     `json:"req_err"`
	Req        []ctlRec   `json:"req"`
	BindStrict []ctlRec   `json:"bind_strict"`
	DoneStrict []ctlRec   `json:"done_strict"`
	GoLdapOK   bool       `json:"goldap_ok"`
	BindGoLdap []ctlRec   `json:"bind_goldap"`
	DoneGoLdap []ctlRec   `json:"done_goldap"`
	Res        *beheraRes `json:"res,omitempty"`
	Err        string     `json:"err,omitempty"`
}

func C14(args []string) error {
	fs := flag.NewFlagSet("c14", flag.ExitOnError)
	in := fs.String("in", "", "vectors")
	outp := fs.String("out", "", "observations")
	par := fs.Int("par", 8, "parallel connections")
	fs.Parse(args)
	var vecs []*c14Vec
	if err := hx.ReadLines(*in, func(b []byte) error {
		v := &c14Vec{}
		if err := json.Unmarshal(b, v); err != nil {
			return err
		}
		if v.Cs == nil {
			v.Cs = []ctlRec{}
		}
		v.Req, v.BindStrict, v.DoneStrict, v.BindGoLdap, v.DoneGoLdap = []ctlRec{}, []ctlRec{}, []ctlRec{}, []ctlRec{}, []ctlRec{}
		vecs = append(vecs, v)
		return nil
	}); err != nil {
		return err
	}
	sym := newCtlSym()
	pool := newCtlPool()
	var mu sync.Mutex
	lookup := func(id int64) *c14Vec {
		i := int(id / 2)
		if i < 0 || i >= len(vecs) {
			return nil
		}
		return vecs[i]
	}
	abs := func(cs []gldap.Control) []ctlRec {
		out := []ctlRec{}
		for _, c := range cs {
			out = append(out, sym.absGldap(c))
		}
		return out
	}
	mux, _ := gldap.NewMux()
	_ = mux.Bind(func(w *gldap.ResponseWriter, r *gldap.Request) {
		m, err := r.GetSimpleBindMessage()
		if err != nil {
			return
		}
		v := lookup(m.GetID())
		resp := r.NewBindResponse(gldap.WithResponseCode(gldap.ResultSuccess))
		if v != nil {
			mu.Lock()
			v.ReqOK, v.Req = true, abs(m.Controls)
			mu.Unlock()
			// the handler owns what it was given: it flips the criticality of the decoded controls that have one
			// (no other request may ever see that)
			for _, c := range m.Controls {
				switch x := c.(type) {
				case *gldap.ControlManageDsaIT:
					x.Criticality = !x.Criticality
				case *gldap.ControlString:
					x.Criticality = !x.Criticality
				}
			}
			if cs, err := sym.buildAllReuse(pool, 1000+r.ConnectionID(), int(m.GetID()/2), v.Cs); err == nil {
				resp.SetControls(cs...)
			}
		}
		_ = w.Write(resp)
	})
	_ = mux.Search(func(w *gldap.ResponseWriter, r *gldap.Request) {
		m, err := r.GetSearchMessage()
		if err != nil {
			return
		}
		v := lookup(m.GetID())
		// controls travel on failed searches as well as on successful ones
		code := gldap.ResultSuccess
		if (m.GetID()/2)%2 == 1 {
			code = gldap.ResultSizeLimitExceeded
		}
		resp := r.NewSearchDoneResponse(gldap.WithResponseCode(code))
		if v != nil {
			if cs, err := sym.buildAllReuse(pool, 2000+r.ConnectionID(), int(m.GetID()/2)+1, v.Cs); err == nil {
				resp.SetControls(cs...)
			}
		}
		_ = w.Write(resp)
	})
	srv0, err := hx.StartServer(mux, []gldap.Option{gldap.WithLogger(hx.NullLogger())}, nil)
	if err != nil {
		return err
	}
	defer srv0.Stop(10 * time.Second)
	// a second server on the same mux logs at debug level: every other worker talks to it
	srv1, err := hx.StartServer(mux, []gldap.Option{gldap.WithLogger(hx.DebugLogger())}, nil)
	if err != nil {
		return err
	}
	defer srv1.Stop(10 * time.Second)
	rnd := hx.Rand(1414)
	var rmu sync.Mutex
	errs := make([]error, *par)
	hx.Parallel(*par, *par, func(w int) {
		var c *lx.Conn
		redial := func() error {
			if c != nil {
				c.Close()
			}
			var err error
			srv := srv0
			if (w+int(hx.Seed()))%2 == 1 {
				srv = srv1
			}
			c, err = lx.Dial(srv.Addr, 5*time.Second)
			return err
		}
		if errs[w] = redial(); errs[w] != nil {
			return
		}
		defer func() { c.Close() }()
		for i := w; i < len(vecs); i += *par {
			v := vecs[i]
			if v.K == "behera" {
				var opts []gldap.Option
				add := func(set bool, o gldap.Option) {
					if set {
						opts = append(opts, o)
					}
				}
				add(v.A.G >= 0, gldap.WithGraceAuthNsRemaining(uint(sym.num(v.A.G, maxI31))))
				add(v.A.E >= 0, gldap.WithSecondsBeforeExpiration(uint(sym.num(v.A.E, maxI31))))
				cc := uint(v.A.C)
				switch v.A.C {
				case 1000000:
					cc = uint(maxI31)
				case 2000000:
					cc = ^uint(0) - 1
				case 3000000:
					cc = ^uint(0)
				}
				add(v.A.C >= 0, gldap.WithErrorCode(cc))
				rmu.Lock()
				rnd.Shuffle(len(opts), func(a, b int) { opts[a], opts[b] = opts[b], opts[a] })
				rmu.Unlock()
				res := &beheraRes{Grace: -1, Expire: -1, Error: -1}
				func() {
					defer func() {
						if r := recover(); r != nil {
							v.Err = fmt.Sprint("panic: ", r)
						}
					}()
					ctl, err := gldap.NewControlBeheraPasswordPolicy(opts...)
					if err == nil && ctl != nil {
						e, _ := ctl.ErrorCode()
						res.OK, res.Grace, res.Expire, res.Error = true, sym.unnum(int64(ctl.Grace()), maxI31), sym.unnum(int64(ctl.Expire()), maxI31), int64(e)
					}
				}()
				v.Res = res
				continue
			}
			// the list, in gldap's own encoding, as request controls
			cs, err := sym.buildAllReuse(pool, w, i, v.Cs)
			if err != nil {
				v.Err = "build: " + err.Error()
				continue
			}
			var ctlNode *berx.Node
			if len(cs) > 0 {
				ctlNode = berx.CtxC(0)
				for _, g := range cs {
					n, err := berx.ParseAll(g.Encode().Bytes())
					if err != nil {
						v.Err = "gldap encoding does not parse strictly: " + err.Error()
						break
					}
					ctlNode.Kids = append(ctlNode.Kids, n)
				}
			}
			if v.Err != "" {
				continue
			}
			id := int64(i) * 2
			collect := func(op *berx.Node, id int64, withReqControls bool) (strict []ctlRec, gol []ctlRec, golOK bool, err error) {
				var cn *berx.Node
				if withReqControls {
					cn = ctlNode
				}
				if err := c.Send(lx.Envelope(id, op, cn)); err != nil {
					return nil, nil, false, err
				}
				m, err := recvPatient(c, 5*time.Second)
				if err != nil {
					return nil, nil, false, err
				}
				if m.ID != id {
					return nil, nil, false, fmt.Errorf("reply id %d want %d", m.ID, id)
				}
				strict, gol, golOK = []ctlRec{}, []ctlRec{}, true
				for _, cnode := range m.Controls {
					strict = append(strict, sym.absWire(cnode))
					g, ok := sym.absGoLdap(cnode.Encode())
					golOK = golOK && ok
					gol = append(gol, g)
				}
				return strict, gol, golOK, nil
			}
			bs, bg, ok1, err := collect(lx.BindReq(3, "cn=x", "p"), id, true)
			if err != nil {
				// the server rejected the request (decode error): the connection is gone
				mu.Lock()
				v.ReqErr = err.Error()
				mu.Unlock()
				if errs[w] = redial(); errs[w] != nil {
					return
				}
				continue
			}
			ds, dg, ok2, err := collect(lx.SearchReq("dc=x", 2, 0, 0, 0, false, lx.FilterPresent("objectClass"), nil), id+1, false)
			if err != nil {
				v.Err = "search: " + err.Error()
				if errs[w] = redial(); errs[w] != nil {
					return
				}
				continue
			}
			mu.Lock()
			v.BindStrict, v.BindGoLdap, v.DoneStrict, v.DoneGoLdap, v.GoLdapOK = bs, bg, ds, dg, ok1 && ok2
			mu.Unlock()
		}
	})
	for _, e := range errs {
		if e != nil {
			return e
		}
	}
	out, err := hx.NewOut(*outp)
	if err != nil {
		return err
	}
	mu.Lock()
	for _, v := range vecs {
		out.Write(v)
	}
	mu.Unlock()
	return out.Close()
}
