package props

import (
	"encoding/json"
	"flag"
	"fmt"
	"strings"
	"sync/atomic"
	"time"

	"github.com/jimlambrt/gldap"

	"verif/harness/internal/hx"
	"verif/harness/internal/lx"
)

type dAttr struct {
	Name string   `json:"name"`
	Vals []string `json:"vals"`
}
type dEntry struct {
	DN    string  `json:"dn"`
	Attrs []dAttr `json:"attrs"`
}
type c19Bind struct {
	DN       string `json:"dn"`
	PW       string `json:"pw"`
	Plain    int    `json:"plain"`
	TLS      int    `json:"tls"`
	StartTLS int    `json:"starttls"`
}
type c19Vec struct {
	Kind  string    `json:"kind,omitempty"`
	Binds []c19Bind `json:"binds,omitempty"`
	Users []dEntry  `json:"users"`
	Anon  bool      `json:"anon"`
}
type c19Obs struct {
	Vid   int       `json:"vid"`
	Users []dEntry  `json:"users"`
	Anon  bool      `json:"anon"`
	Binds []c19Bind `json:"binds"`
	Err   string    `json:"err,omitempty"`
}

// dirSym maps the Directory.tla symbols to concrete strings (per seed)
type dirSym struct{ m map[string]string }

func newDirSym() *dirSym {
	r := hx.Rand(19)
	bases := []string{"cn=al,ou=people,dc=example,dc=org", "uid=Björn Ü,ou=people,dc=example,dc=org", "cn=a b+sn=c,ou=people,dc=example,dc=org"}
	b := bases[r.Intn(len(bases))]
	pws := [][2]string{{"secret", "secret1"}, {"p", "pp"}, {"pa ss\x00\xff", "pa ss\x00\xffq"}, {strings.Repeat("x", 300), strings.Repeat("x", 301)}}
	p := pws[r.Intn(len(pws))]
	return &dirSym{m: map[string]string{"": "", "d1": b, "d1x": b + "x", "D1": strings.ToUpper(b), "dz": "cn=zed,ou=people,dc=example,dc=org",
		"p": p[0], "q": p[1], "a1": "description", "password": "password"}}
}
func (s *dirSym) c(x string) string {
	if v, ok := s.m[x]; ok {
		return v
	}
	return x
}

var entriesCalls int64 // which entries are made with gldap.NewEntry alternates from call to call

func (s *dirSym) entries(es []dEntry) []*gldap.Entry {
	atomic.AddInt64(&entriesCalls, 1)
	out := make([]*gldap.Entry, 0, len(es))
	// entries with equal value lists are given the very same slice (as testdirectory.NewUsers does with WithMembersOf,
	// and as callers do who build several entries from one objectClass list): changing one entry must not show in another
	shared := map[string][]string{}
	for n, e := range es {
		ge := &gldap.Entry{DN: s.c(e.DN)}
		// every other entry is made with gldap.NewEntry (from a map: possible when its attribute names are distinct and
		// already in name order), the others are put together field by field
		viaNew, m, prev := (n+int(hx.Seed())+int(atomic.AddInt64(&entriesCalls, 0)))%2 == 0, map[string][]string{}, ""
		for _, a := range e.Attrs {
			if _, dup := m[s.c(a.Name)]; dup || s.c(a.Name) < prev {
				viaNew = false
			}
			prev = s.c(a.Name)
			m[s.c(a.Name)] = nil
		}
		for _, a := range e.Attrs {
			vals := make([]string, 0, len(a.Vals))
			for _, v := range a.Vals {
				vals = append(vals, s.c(v))
			}
			key := fmt.Sprintf("%s\x00%d\x00%s", a.Name, len(vals), strings.Join(vals, "\x00"))
			if sv, ok := shared[key]; ok && len(vals) > 0 {
				vals = sv
			} else {
				shared[key] = vals
			}
			ge.Attributes = append(ge.Attributes, gldap.NewEntryAttribute(s.c(a.Name), vals))
			m[s.c(a.Name)] = vals
		}
		if viaNew && len(e.Attrs) > 0 {
			ge = gldap.NewEntry(s.c(e.DN), m)
		}
		out = append(out, ge)
	}
	return out
}

func bindCode(c *lx.Conn, msgid int64, dn, pw string) int {
	if err := c.Send(lx.Envelope(msgid, lx.BindReq(3, dn, pw), nil)); err != nil {
		return -1
	}
	m, err := recvPatient(c, 5*time.Second)
	if err != nil || m.ID != msgid || m.Tag != lx.AppBindResp {
		return -2
	}
	return int(m.Code)
}

func C19(args []string) error {
	fs := flag.NewFlagSet("c19", flag.ExitOnError)
	in := fs.String("in", "", "vectors")
	outp := fs.String("out", "", "observations")
	par := fs.Int("par", 4, "parallel directories")
	fs.Parse(args)
	var binds []c19Bind
	var vecs []c19Vec
	if err := hx.ReadLines(*in, func(b []byte) error {
		var v c19Vec
		if err := json.Unmarshal(b, &v); err != nil {
			return err
		}
		if v.Kind == "binds" {
			binds = v.Binds
		} else {
			vecs = append(vecs, v)
		}
		return nil
	}); err != nil {
		return err
	}
	out, err := hx.NewOut(*outp)
	if err != nil {
		return err
	}
	sym := newDirSym()
	if *par > len(vecs) {
		*par = 1
	}
	errs := make([]error, *par)
	hx.Parallel(*par, *par, func(w int) {
		errs[w] = c19Worker(w, *par, vecs, binds, sym, out)
	})
	for _, e := range errs {
		if e != nil {
			return e
		}
	}
	return out.Close()
}

func c19Worker(w, par int, vecs []c19Vec, binds []c19Bind, sym *dirSym, out *hx.Out) error {
	plain, err := hx.StartDir(true, false)
	if err != nil {
		return err
	}
	defer plain.Stop(10 * time.Second)
	secure, err := hx.StartDir(false, false)
	if err != nil {
		return err
	}
	defer secure.Stop(10 * time.Second)
	cp, err := lx.Dial(plain.Addr, 5*time.Second)
	if err != nil {
		return err
	}
	defer cp.Close()
	ct, err := lx.DialTLS(secure.Addr, secure.ClientTLS(), 5*time.Second)
	if err != nil {
		return fmt.Errorf("tls dial: %w", err)
	}
	defer ct.Close()
	cs, err := lx.Dial(plain.Addr, 5*time.Second)
	if err != nil {
		return err
	}
	defer cs.Close()
	if err := cs.Send(lx.Envelope(1, lx.ExtReq(lx.OIDStartTLS), nil)); err != nil {
		return err
	}
	if m, err := cs.Recv(5 * time.Second); err != nil || m.Code != 0 {
		return fmt.Errorf("starttls refused: %v %v", m, err)
	}
	if err := cs.Upgrade(plain.ClientTLS(), 5*time.Second); err != nil {
		return fmt.Errorf("starttls handshake: %w", err)
	}
	msgid := int64(100)
	for i := w; i < len(vecs); i += par {
		v := vecs[i]
		o := &c19Obs{Vid: i + 1, Users: v.Users, Anon: v.Anon}
		if o.Users == nil {
			o.Users = []dEntry{}
		}
		for _, d := range []*hx.Dir{plain, secure} {
			d.D.SetUsers(sym.entries(v.Users)...)
			d.D.SetAllowAnonymousBind(v.Anon)
		}
		for _, b := range binds {
			msgid += 3
			ob := c19Bind{DN: b.DN, PW: b.PW}
			ob.Plain = bindCode(cp, msgid, sym.c(b.DN), sym.c(b.PW))
			ob.TLS = bindCode(ct, msgid+1, sym.c(b.DN), sym.c(b.PW))
			ob.StartTLS = bindCode(cs, msgid+2, sym.c(b.DN), sym.c(b.PW))
			o.Binds = append(o.Binds, ob)
		}
		out.Write(o)
	}
	return nil
}
