package props

import (
	"fmt"
	"strconv"
	"strings"

	"github.com/go-ldap/ldap/v3"
	"github.com/jimlambrt/gldap"

	"verif/harness/internal/berx"
	"verif/harness/internal/hx"
)

// tNode is an abstract BER tree node of spec/Ber.tla
type tNode struct {
	C    string   `json:"c"`
	K    bool     `json:"k"`
	T    int      `json:"t"`
	V    string   `json:"v"`
	Kids []*tNode `json:"kids"`
}

// reqRec is the abstract request record of spec/Req.tla
type reqChg struct {
	Mop  string   `json:"mop"`
	Type string   `json:"type"`
	Vals []string `json:"vals"`
}
type reqAV struct {
	Type string   `json:"type"`
	Vals []string `json:"vals"`
}
type reqRec struct {
	Op       string   `json:"op"`
	ID       string   `json:"id"`
	Ver      string   `json:"ver"`
	DN       string   `json:"dn"`
	PW       string   `json:"pw"`
	Scope    string   `json:"scope"`
	Deref    string   `json:"deref"`
	Size     string   `json:"size"`
	Time     string   `json:"time"`
	Types    string   `json:"types"`
	Filter   string   `json:"filter"`
	Attrs    []string `json:"attrs"`
	Changes  []reqChg `json:"changes"`
	AddAttrs []reqAV  `json:"addattrs"`
	Name     string   `json:"name"`
	Ctls     []ctlRec `json:"ctls"`
}

func blankReq(op string) reqRec {
	return reqRec{Op: op, Attrs: []string{}, Changes: []reqChg{}, AddAttrs: []reqAV{}, Ctls: []ctlRec{}}
}

// reqSym concretises the symbols of Ber.tla / Req.tla (per seed) and maps observations back
type reqSym struct {
	ctl     *ctlSym
	str     map[string]string
	rstr    map[string]string
	ids     map[string]int64
	rids    map[int64]string
	filters map[string]string
	fbytes  map[string]string // compiled filter bytes -> symbol
}

var filterCorpus = map[string]string{
	"f1": "(cn=a)", "f2": "(objectClass=*)", "f3": "(cn=a*b*c)", "f4": "(uid>=x)", "f5": "(uid<=x)", "f6": "(uid~=x)",
	"f7": "(cn:dn:2.5.13.2:=a)", "f8": "(&(a=b)(c=d))", "f9": "(|(a=b)(c=d))", "f10": "(!(a=b))",
	"f11": "(&(|(a=b)(!(c=d)))(e=*))", "f12": "(uid=x)",
	// long filters in sibling pairs: same content bytes, different operator
	"f13": "(&(description=" + strings.Repeat("d", 60) + ")(title=" + strings.Repeat("t", 24) + "))",
	"f14": "(|(description=" + strings.Repeat("d", 60) + ")(title=" + strings.Repeat("t", 24) + "))",
	"f15": "(!(description=" + strings.Repeat("e", 90) + "))",
	"f16": "(&(description=" + strings.Repeat("e", 90) + "))",
}

func newReqSym() *reqSym {
	r := hx.Rand(1)
	// s1: content class; s2: a length at or beyond the one-octet length boundary; s3: short or just below it
	s1s := []string{"cn=alice,dc=example,dc=org", "\x00\x01\xff\xfe binary", "ünïcödé ✓", "\x04\x03abc", "uid=b\\,ob,dc=x"}
	s2lens := []int{128, 129, 255, 256, 65535, 65536}
	s3s := []string{"short", strings.Repeat("y", 127), "0"}
	p := [3]string{s1s[r.Intn(len(s1s))], strings.Repeat("L", s2lens[r.Intn(len(s2lens))]), s3s[r.Intn(len(s3s))]}
	s := &reqSym{ctl: newCtlSym(), str: map[string]string{"s0": "", "s1": p[0], "s2": p[1], "s3": p[2], "s4": " ou=people, dc=example , dc=org ",
		"n1": "1.3.6.1.4.1.4203.1.11.3", "n2": "1.3.6.1.4.1.4203.1.11.1"}, rstr: map[string]string{}, ids: map[string]int64{}, rids: map[int64]string{},
		filters: filterCorpus, fbytes: map[string]string{}}
	for t, oid := range ctlOIDs {
		s.str["oid:"+t] = oid
	}
	for k, v := range s.ctl.str {
		if k != "" {
			s.str[k] = v
		}
	}
	for k, v := range s.str {
		s.rstr[v] = k
	}
	s.ids["i0"] = 0
	s.ids["i1"] = []int64{1, 127, 128, 255, 256, 32768}[r.Intn(6)]
	s.ids["i2"] = maxI31
	s.ids["i3"] = 70000 + int64(r.Intn(1<<30))
	for k, v := range s.ids {
		s.rids[v] = k
	}
	for sym, f := range s.filters {
		p, err := ldap.CompileFilter(f)
		if err != nil {
			panic(err)
		}
		s.fbytes[string(p.Bytes())] = sym
	}
	return s
}

// num returns the number a symbol stands for (ok=false: not a numeric symbol)
func (s *reqSym) num(sym string) (int64, bool) {
	if v, ok := s.ids[sym]; ok {
		return v, true
	}
	if n, err := strconv.ParseInt(sym, 10, 64); err == nil {
		return n, true
	}
	for _, p := range []struct {
		pre string
		max int64
	}{{"ps", maxU32}, {"gr", maxI31}, {"dec", maxI31}} {
		if strings.HasPrefix(sym, p.pre) {
			if n, err := strconv.ParseInt(sym[len(p.pre):], 10, 64); err == nil {
				return s.ctl.num(n, p.max), true
			}
		}
	}
	if strings.HasPrefix(sym, "ec") {
		if n, err := strconv.ParseInt(sym[2:], 10, 64); err == nil {
			return n, true
		}
	}
	return 0, false
}

func (s *reqSym) bytesOf(sym string) []byte {
	if strings.HasPrefix(sym, "dec") {
		if n, ok := s.num(sym); ok {
			return []byte(strconv.FormatInt(n, 10))
		}
	}
	if v, ok := s.str[sym]; ok {
		return []byte(v)
	}
	return []byte(sym)
}

func (s *reqSym) unID(v int64) string {
	if k, ok := s.rids[v]; ok {
		return k
	}
	return fmt.Sprintf("?%d", v)
}
func (s *reqSym) unStr(v string) string {
	if k, ok := s.rstr[v]; ok {
		return k
	}
	return "?" + v
}

var classOf = map[string]int{"U": berx.Univ, "A": berx.App, "C": berx.Ctx, "P": berx.Priv}

// node turns an abstract tree into a concrete BER node
func (s *reqSym) node(n *tNode) *berx.Node {
	if n.C == "F" {
		p, err := ldap.CompileFilter(s.filters[n.V])
		if err != nil {
			panic(err)
		}
		out, err := berx.ParseAll(p.Bytes())
		if err != nil {
			panic(err)
		}
		return out
	}
	out := &berx.Node{Class: classOf[n.C], Cons: n.K, Tag: n.T}
	if n.K {
		for _, k := range n.Kids {
			out.Kids = append(out.Kids, s.node(k))
		}
		return out
	}
	if len(n.Kids) > 0 { // primitive wrapping encoded children
		for _, k := range n.Kids {
			out.Val = append(out.Val, s.node(k).Encode()...)
		}
		return out
	}
	isInt := n.C == "U" && (n.T == berx.TagInt || n.T == berx.TagEnum)
	isCtxNum := n.C == "C" && (strings.HasPrefix(n.V, "gr") || strings.HasPrefix(n.V, "ec"))
	switch {
	case isInt || isCtxNum:
		if v, ok := s.num(n.V); ok {
			out.Val = berx.EncInt(v)
		} else {
			out.Val = s.bytesOf(n.V)
		}
	case n.C == "U" && n.T == berx.TagBool:
		switch n.V {
		case "true":
			out.Val = []byte{0xff}
		case "false":
			out.Val = []byte{0x00}
		default:
			out.Val = s.bytesOf(n.V)
		}
	case n.C == "A" && n.T == 16: // abandon: message id
		if v, ok := s.num(n.V); ok {
			out.Val = berx.EncInt(v)
		}
	default:
		out.Val = s.bytesOf(n.V)
	}
	return out
}

// unwrapVal maps a modify value (plain or BER-wrapped) back to its symbol
func (s *reqSym) unwrapVal(v string) string {
	if len(v) >= 2 && v[0] == 0x04 {
		if n, rest, err := berx.Parse([]byte(v)); err == nil && len(rest) == 0 && !n.Cons {
			if sym, ok := s.rstr[string(n.Val)]; ok {
				return sym
			}
		}
	}
	return s.unStr(v)
}

func (s *reqSym) filterSym(f string) string {
	p, err := ldap.CompileFilter(f)
	if err != nil {
		return "?" + f
	}
	if sym, ok := s.fbytes[string(p.Bytes())]; ok {
		return sym
	}
	return "?" + f
}

func (s *reqSym) absCtls(cs []gldap.Control) []ctlRec {
	out := []ctlRec{}
	for _, c := range cs {
		out = append(out, s.ctl.absGldap(c))
	}
	return out
}

// observe abstracts what a handler sees (kind by which typed getter succeeds)
func (s *reqSym) observe(r *gldap.Request) (reqRec, bool) {
	if m, err := r.GetSimpleBindMessage(); err == nil {
		o := blankReq("bind")
		o.ID, o.Ver, o.DN, o.PW, o.Ctls = s.unID(m.GetID()), "3", s.unStr(m.UserName), s.unStr(string(m.Password)), s.absCtls(m.Controls)
		if m.AuthChoice != gldap.SimpleAuthChoice {
			o.Ver = "?auth:" + string(m.AuthChoice)
		}
		return o, true
	}
	if m, err := r.GetSearchMessage(); err == nil {
		o := blankReq("search")
		o.ID, o.DN, o.Scope, o.Deref = s.unID(m.GetID()), s.unStr(m.BaseDN), strconv.FormatInt(int64(m.Scope), 10), strconv.Itoa(m.DerefAliases)
		o.Size, o.Time, o.Types, o.Filter = s.unID(m.SizeLimit), s.unID(m.TimeLimit), strconv.FormatBool(m.TypesOnly), s.filterSym(m.Filter)
		for _, a := range m.Attributes {
			o.Attrs = append(o.Attrs, s.unStr(a))
		}
		o.Ctls = s.absCtls(m.Controls)
		return o, true
	}
	if m, err := r.GetModifyMessage(); err == nil {
		o := blankReq("modify")
		o.ID, o.DN, o.Ctls = s.unID(m.GetID()), s.unStr(m.DN), s.absCtls(m.Controls)
		for _, c := range m.Changes {
			ch := reqChg{Mop: strconv.FormatInt(c.Operation, 10), Type: s.unStr(c.Modification.Type), Vals: []string{}}
			for _, v := range c.Modification.Vals {
				ch.Vals = append(ch.Vals, s.unwrapVal(v))
			}
			o.Changes = append(o.Changes, ch)
		}
		return o, true
	}
	if m, err := r.GetAddMessage(); err == nil {
		o := blankReq("add")
		o.ID, o.DN, o.Ctls = s.unID(m.GetID()), s.unStr(m.DN), s.absCtls(m.Controls)
		for _, a := range m.Attributes {
			av := reqAV{Type: s.unStr(a.Type), Vals: []string{}}
			for _, v := range a.Vals {
				av.Vals = append(av.Vals, s.unStr(v))
			}
			o.AddAttrs = append(o.AddAttrs, av)
		}
		return o, true
	}
	if m, err := r.GetDeleteMessage(); err == nil {
		o := blankReq("delete")
		o.ID, o.DN, o.Ctls = s.unID(m.GetID()), s.unStr(m.DN), s.absCtls(m.Controls)
		return o, true
	}
	if m, err := r.GetUnbindMessage(); err == nil {
		o := blankReq("unbind")
		o.ID = s.unID(m.GetID())
		return o, true
	}
	return blankReq("extended"), false
}
