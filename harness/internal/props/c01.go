package props

import (
	"encoding/json"
	"flag"
	"sync"
	"time"

	"github.com/jimlambrt/gldap"

	"verif/harness/internal/hx"
	"verif/harness/internal/lx"
)

// ---- C01: every generated request is serialised by the harness's own encoder, sent over TCP, and the
// handler reports field by field what Request.Get*Message() holds.

type c01Vec struct {
	Kind string          `json:"kind"`
	R    json.RawMessage `json:"r"`
	Tree *tNode          `json:"tree,omitempty"`
	// observations
	Seen     []reqRec `json:"seen"`
	Answered bool     `json:"answered"`
	Closed   bool     `json:"closed"`
	Err      string   `json:"err,omitempty"`
}

// reqServer is a gldap server whose handlers record what they see
type reqServer struct {
	srv    *hx.Server
	mu     sync.Mutex
	seen   []reqRec
	closed chan int
	keep   bool     // requests travel on one long-lived connection (re-dialled when the server closes it) instead of one each
	conn   *lx.Conn // ... that connection
}

func newReqServer(sym *reqSym, sopts ...gldap.Option) (*reqServer, error) {
	rs := &reqServer{closed: make(chan int, 64)}
	record := func(name string) gldap.HandlerFunc {
		return func(w *gldap.ResponseWriter, r *gldap.Request) {
			o, typed := sym.observe(r)
			var resp gldap.Response
			if !typed {
				// extended operation: the name is the route's, the id travels back in the response
				o.Name = name
				resp = r.NewExtendedResponse(gldap.WithResponseCode(gldap.ResultSuccess))
			} else {
				resp = r.NewResponse(gldap.WithResponseCode(gldap.ResultSuccess), gldap.WithDiagnosticMessage(o.Op))
			}
			rs.mu.Lock()
			rs.seen = append(rs.seen, o)
			rs.mu.Unlock()
			if o.Op != "unbind" {
				_ = w.Write(resp)
			}
		}
	}
	mux, _ := gldap.NewMux()
	_ = mux.Bind(record(""))
	_ = mux.Search(record(""), gldap.WithBaseDN("ou=people,dc=example,dc=org"), gldap.WithLabel("people"))
	_ = mux.Search(record(""))
	_ = mux.Modify(record(""))
	_ = mux.Add(record(""))
	_ = mux.Delete(record(""))
	_ = mux.ExtendedOperation(record("n1"), gldap.ExtendedOperationName(sym.str["n1"]))
	_ = mux.ExtendedOperation(record("n2"), gldap.ExtendedOperationName(sym.str["n2"]))
	_ = mux.Unbind(record(""))
	_ = mux.DefaultRoute(record("?default"))
	opts := append([]gldap.Option{gldap.WithLogger(hx.NullLogger()), gldap.WithOnClose(func(id int) { rs.closed <- id })}, sopts...) // (a later WithLogger in sopts wins)
	srv, err := hx.StartServer(mux, opts, nil)
	if err != nil {
		return nil, err
	}
	rs.srv = srv
	return rs, nil
}

func (rs *reqServer) take() []reqRec {
	rs.mu.Lock()
	defer rs.mu.Unlock()
	out := rs.seen
	rs.seen = nil
	if out == nil {
		out = []reqRec{}
	}
	return out
}

// exchange sends one frame on a fresh connection and waits for the final answer or the close
func (rs *reqServer) exchange(sym *reqSym, frame []byte) (seen []reqRec, answered, closed bool, respID int64, err error) {
	c := rs.conn
	if c == nil {
		if c, err = lx.Dial(rs.srv.Addr, 5*time.Second); err != nil {
			return nil, false, false, 0, err
		}
	}
	rs.conn = nil
	if err := c.SendRaw(frame); err != nil {
		c.Close()
		return nil, false, false, 0, err
	}
	m, rerr := recvPatient(c, slowBudget.Timeout())
	switch {
	case rerr == nil:
		answered, respID = true, m.ID
	default:
		if ne, ok := rerr.(interface{ Timeout() bool }); ok && ne.Timeout() {
			slowBudget.Spent()
		} else {
			closed = true
		}
	}
	if rs.keep && answered {
		// the handler recorded what it saw before it wrote its answer: the connection stays open for the next request
		rs.conn = c
		return rs.take(), answered, closed, respID, nil
	}
	c.Close()
	select {
	case <-rs.closed:
	case <-time.After(5 * time.Second):
		err = errNoOnClose
	}
	return rs.take(), answered, closed, respID, err
}

type strErr string

func (e strErr) Error() string { return string(e) }

const errNoOnClose = strErr("no OnClose within 5s")

func C01(args []string) error {
	fs := flag.NewFlagSet("c01", flag.ExitOnError)
	in := fs.String("in", "", "vectors")
	outp := fs.String("out", "", "observations")
	par := fs.Int("par", 8, "parallel servers")
	fs.Parse(args)
	var vecs []*c01Vec
	if err := hx.ReadLines(*in, func(b []byte) error {
		v := &c01Vec{}
		if err := json.Unmarshal(b, v); err != nil {
			return err
		}
		vecs = append(vecs, v)
		return nil
	}); err != nil {
		return err
	}
	sym := newReqSym()
	errs := make([]error, *par)
	hx.Parallel(*par, *par, func(w int) {
		rs, err := newReqServer(sym, gldap.WithLogger(hx.LoggerFor(w))) // every other server logs at debug level
		if err == nil {
			rs.keep = (w/2)%2 == 1 // half of the workers send all their requests on one long-lived connection
		}
		if err != nil {
			errs[w] = err
			return
		}
		defer rs.srv.Stop(10 * time.Second)
		for i := w; i < len(vecs); i += *par {
			v := vecs[i]
			if slowBudget.Exhausted() {
				v.Err = "skipped"
				continue
			}
			frame := sym.node(v.Tree).Encode()
			seen, answered, closed, respID, err := rs.exchange(sym, frame)
			if err != nil {
				v.Err = err.Error()
			}
			for j := range seen {
				if seen[j].Op == "extended" && answered {
					seen[j].ID = sym.unID(respID)
				}
			}
			v.Seen, v.Answered, v.Closed = seen, answered, closed
			v.Tree = nil
		}
	})
	for _, e := range errs {
		if e != nil {
			return e
		}
	}
	out, err := hx.NewOut(*outp)
	if err != nil {
		return err
	}
	for _, v := range vecs {
		if v.Err != "skipped" {
			if v.Seen == nil {
				v.Seen = []reqRec{}
			}
			out.Write(v)
		}
	}
	return out.Close()
}
