package props

import (
	"crypto/tls"
	"crypto/x509"
	"encoding/pem"
	"flag"
	"net"
	"time"

	"github.com/jimlambrt/gldap/testdirectory"

	"verif/harness/internal/hx"
	"verif/harness/internal/lx"
)

// ---- C18 (test directory part): testdirectory.Start with WithMTLS / default TLS; one connection per client kind;
// "served" = a bind on that connection got an LDAP answer.

type c18Obs struct {
	Mode   string `json:"mode"` // "server" | "mtls"
	Kind   string `json:"kind"`
	Served bool   `json:"served"`
	Detail string `json:"detail"`
}

func C18TD(args []string) error {
	fs := flag.NewFlagSet("c18td", flag.ExitOnError)
	outp := fs.String("out", "", "observations")
	fs.Parse(args)
	out, err := hx.NewOut(*outp)
	if err != nil {
		return err
	}
	other, err := hx.NewCA("some-other-ca")
	if err != nil {
		return err
	}
	wrong, err := other.Issue("intruder", true)
	if err != nil {
		return err
	}
	// a client certificate that the test-directory package itself issued earlier in this process (another CA every call)
	tt := &testdirectory.Logger{Logger: hx.NullLogger()}
	_, earlierCli := testdirectory.GetTLSConfig(tt, testdirectory.WithMTLS(tt), testdirectory.WithHost(tt, "127.0.0.1"))
	var earlier tls.Certificate
	if earlierCli != nil && len(earlierCli.Certificates) > 0 {
		earlier = earlierCli.Certificates[0]
	} else {
		earlier = wrong
	}
	for _, mode := range []string{"server", "mtls"} {
		d, err := hx.StartDir(false, mode == "mtls", testdirectory.WithDefaults(&testdirectory.Logger{Logger: hx.NullLogger()}, &testdirectory.Defaults{AllowAnonymousBind: true}))
		if err != nil {
			return err
		}
		pool := x509.NewCertPool()
		pool.AppendCertsFromPEM([]byte(d.D.Cert()))
		base := &tls.Config{RootCAs: pool, ServerName: "127.0.0.1"}
		var own tls.Certificate
		if mode == "mtls" {
			own, err = tls.X509KeyPair([]byte(d.D.ClientCert()), []byte(d.D.ClientKey()))
			if err != nil {
				return err
			}
		}
		_ = pem.Decode
		for rep := 0; rep < 3; rep++ {
			for _, kind := range []string{"valid", "nocert", "wrongca", "earlierca", "plaintext", "garbage", "silent"} {
				o := c18Obs{Mode: mode, Kind: kind}
				func() {
					var c *lx.Conn
					var err error
					switch kind {
					case "valid", "nocert", "wrongca", "earlierca":
						cfg := base.Clone()
						if kind == "valid" && mode == "mtls" {
							cfg.Certificates = []tls.Certificate{own}
						}
						if kind == "wrongca" {
							// present the foreign certificate whatever the server's acceptable CAs say
							cfg.GetClientCertificate = func(*tls.CertificateRequestInfo) (*tls.Certificate, error) { return &wrong, nil }
						}
						if kind == "earlierca" {
							cfg.GetClientCertificate = func(*tls.CertificateRequestInfo) (*tls.Certificate, error) { return &earlier, nil }
						}
						c, err = lx.DialTLS(d.Addr, cfg, 3*time.Second)
					default:
						c, err = lx.Dial(d.Addr, 3*time.Second)
					}
					if err != nil {
						o.Detail = "dial: " + err.Error()
						return
					}
					defer c.Close()
					switch kind {
					case "garbage":
						_ = c.SendRaw([]byte("GET / HTTP/1.0\r\n\r\n"))
					case "silent":
						_ = c.C.SetReadDeadline(time.Now().Add(300 * time.Millisecond))
						buf := make([]byte, 16)
						n, rerr := c.C.Read(buf)
						if n > 0 {
							o.Detail = "server spoke first"
						} else if ne, ok := rerr.(net.Error); ok && ne.Timeout() {
							o.Detail = "nothing (as expected)"
						} else {
							o.Detail = "closed"
						}
						return
					}
					if kind != "garbage" {
						if err := c.Send(lx.Envelope(7, lx.BindReq(3, "", ""), nil)); err != nil {
							o.Detail = "send: " + err.Error()
							return
						}
					}
					m, err := recvPatient(c, 2*time.Second)
					if err != nil {
						o.Detail = "no answer: " + err.Error()
						return
					}
					o.Served = m.ID == 7 || m.Tag == lx.AppBindResp
					o.Detail = "answered"
				}()
				if len(o.Detail) > 120 {
					o.Detail = o.Detail[:120]
				}
				out.Write(o)
			}
		}
		d.Stop(10 * time.Second)
	}
	return out.Close()
}
