package props

import (
	"fmt"
	"strconv"
	"sync"

	ber "github.com/go-asn1-ber/asn1-ber"
	"github.com/go-ldap/ldap/v3"
	"github.com/jimlambrt/gldap"

	"verif/harness/internal/berx"
	"verif/harness/internal/hx"
	"verif/harness/internal/lx"
)

// ctlRec is the abstract control record of spec/Ctl.tla
type ctlRec struct {
	T      string `json:"t"`
	OID    string `json:"oid"`
	Crit   bool   `json:"crit"`
	Size   int64  `json:"size"`
	Cookie string `json:"cookie"`
	Grace  int64  `json:"grace"`
	Expire int64  `json:"expire"`
	Error  int64  `json:"error"`
	Val    string `json:"val"`
}

func plainCtl(t string) ctlRec { return ctlRec{T: t, Grace: -1, Expire: -1, Error: -1} }

var ctlOIDs = map[string]string{
	"paging": gldap.ControlTypePaging, "behera": gldap.ControlTypeBeheraPasswordPolicy, "warning": gldap.ControlTypeVChuPasswordWarning,
	"mustchange": gldap.ControlTypeVChuPasswordMustChange, "managedsa": gldap.ControlTypeManageDsaIT, "msnotif": gldap.ControlTypeMicrosoftNotification,
	"msshowdel": gldap.ControlTypeMicrosoftShowDeleted, "msttl": gldap.ControlTypeMicrosoftServerLinkTTL,
}

// ctlSym concretises the symbols of Ctl.tla per seed
type ctlSym struct {
	str  map[string]string
	rstr map[string]string
	mid  int64 // value of integer symbol 1
}

func newCtlSym() *ctlSym {
	r := hx.Rand(14)
	// k2 is always a complete BER element (what most standard control values are), k1 text / binary / long
	pools := [][2]string{{"cookie-1", "\x04\x02hi"}, {"\x00\x01\xfe\xff", "\x30\x03\x02\x01\x05"}, {string(make([]byte, 200)), "\x0a\x01\x01"}}
	p := pools[r.Intn(len(pools))]
	s := &ctlSym{str: map[string]string{"": "", "k1": p[0], "k2": p[1], "o1": "1.2.3.4.5.6.7", "o2": "2.16.840.1.113730.3.4.999"}, rstr: map[string]string{}}
	for k, v := range s.str {
		s.rstr[v] = k
	}
	s.mid = []int64{1, 127, 128, 255, 256, 65535}[r.Intn(6)]
	return s
}

func (s *ctlSym) num(sym int64, max int64) int64 {
	switch sym {
	case 1:
		return s.mid
	case 2:
		return max
	}
	return sym
}
func (s *ctlSym) unnum(v int64, max int64) int64 {
	switch {
	case v == max:
		return 2
	case v == s.mid && v != 0:
		return 1
	case v == 0 || v == -1:
		return v
	}
	return 1000000 + v // not a symbol: will mismatch
}
func (s *ctlSym) unstr(v string) string {
	if k, ok := s.rstr[v]; ok {
		return k
	}
	return "?" + v
}

const (
	maxU32 = int64(1<<32 - 1)
	maxI31 = int64(1<<31 - 1)
)

// build makes the gldap control through the exported API
func (s *ctlSym) build(c ctlRec) (gldap.Control, error) {
	switch c.T {
	case "paging":
		p, err := gldap.NewControlPaging(uint32(s.num(c.Size, maxU32)))
		if err != nil {
			return nil, err
		}
		if c.Cookie != "" {
			p.SetCookie([]byte(s.str[c.Cookie]))
		}
		return p, nil
	case "behera":
		var opts []gldap.Option
		if c.Grace >= 0 {
			opts = append(opts, gldap.WithGraceAuthNsRemaining(uint(s.num(c.Grace, maxI31))))
		}
		if c.Expire >= 0 {
			opts = append(opts, gldap.WithSecondsBeforeExpiration(uint(s.num(c.Expire, maxI31))))
		}
		if c.Error >= 0 {
			opts = append(opts, gldap.WithErrorCode(uint(c.Error)))
		}
		return gldap.NewControlBeheraPasswordPolicy(opts...)
	case "warning":
		return &gldap.ControlVChuPasswordWarning{Expire: s.num(c.Expire, maxI31)}, nil
	case "mustchange":
		return &gldap.ControlVChuPasswordMustChange{MustChange: true}, nil
	case "managedsa":
		return gldap.NewControlManageDsaIT(gldap.WithCriticality(c.Crit))
	case "msnotif":
		return gldap.NewControlMicrosoftNotification()
	case "msshowdel":
		return gldap.NewControlMicrosoftShowDeleted()
	case "msttl":
		return gldap.NewControlMicrosoftServerLinkTTL()
	case "string":
		return gldap.NewControlString(s.str[c.OID], gldap.WithCriticality(c.Crit), gldap.WithControlValue(s.str[c.Val]))
	}
	return nil, fmt.Errorf("unknown control type %q", c.T)
}

// ctlPool keeps long-lived control objects which are re-used (after having been encoded before) by
// assigning their exported fields: a control value is a control value however it came about.
type ctlPool struct {
	mu   sync.Mutex
	objs map[string]gldap.Control
}

func newCtlPool() *ctlPool { return &ctlPool{objs: map[string]gldap.Control{}} }

// reuse returns a pooled object updated through exported fields only, or nil when the type has none
func (p *ctlPool) reuse(s *ctlSym, owner, slot int, c ctlRec) gldap.Control {
	p.mu.Lock()
	defer p.mu.Unlock()
	key := fmt.Sprintf("%d/%d/%s", owner, slot, c.T)
	old := p.objs[key]
	switch c.T {
	case "paging":
		o, _ := old.(*gldap.ControlPaging)
		if o == nil {
			o = &gldap.ControlPaging{}
			p.objs[key] = o
		}
		o.PagingSize = uint32(s.num(c.Size, maxU32))
		o.Cookie = nil
		if c.Cookie != "" {
			o.Cookie = []byte(s.str[c.Cookie])
		}
		return o
	case "warning":
		o, _ := old.(*gldap.ControlVChuPasswordWarning)
		if o == nil {
			o = &gldap.ControlVChuPasswordWarning{}
			p.objs[key] = o
		}
		o.Expire = s.num(c.Expire, maxI31)
		return o
	case "managedsa":
		o, _ := old.(*gldap.ControlManageDsaIT)
		if o == nil {
			o = &gldap.ControlManageDsaIT{}
			p.objs[key] = o
		}
		o.Criticality = c.Crit
		return o
	case "string":
		o, _ := old.(*gldap.ControlString)
		if o == nil {
			o = &gldap.ControlString{}
			p.objs[key] = o
		}
		o.ControlType, o.Criticality, o.ControlValue = s.str[c.OID], c.Crit, s.str[c.Val]
		return o
	}
	return nil
}

// buildAllReuse builds the list, taking every second eligible control from the pool
func (s *ctlSym) buildAllReuse(p *ctlPool, owner int, flip int, cs []ctlRec) ([]gldap.Control, error) {
	var out []gldap.Control
	for i, c := range cs {
		if (i+flip)%2 == 0 {
			if g := p.reuse(s, owner, i, c); g != nil {
				out = append(out, g)
				continue
			}
		}
		g, err := s.build(c)
		if err != nil {
			return nil, err
		}
		out = append(out, g)
	}
	return out, nil
}

func (s *ctlSym) buildAll(cs []ctlRec) ([]gldap.Control, error) {
	var out []gldap.Control
	for _, c := range cs {
		g, err := s.build(c)
		if err != nil {
			return nil, err
		}
		out = append(out, g)
	}
	return out, nil
}

// absGldap abstracts what a handler sees in Message.Controls
func (s *ctlSym) absGldap(c gldap.Control) ctlRec {
	switch v := c.(type) {
	case *gldap.ControlPaging:
		r := plainCtl("paging")
		r.Size, r.Cookie = s.unnum(int64(v.PagingSize), maxU32), s.unstr(string(v.Cookie))
		return r
	case *gldap.ControlBeheraPasswordPolicy:
		r := plainCtl("behera")
		e, _ := v.ErrorCode()
		r.Grace, r.Expire, r.Error = s.unnum(int64(v.Grace()), maxI31), s.unnum(int64(v.Expire()), maxI31), int64(e)
		return r
	case *gldap.ControlVChuPasswordWarning:
		r := plainCtl("warning")
		r.Expire = s.unnum(v.Expire, maxI31)
		return r
	case *gldap.ControlVChuPasswordMustChange:
		r := plainCtl("mustchange")
		if !v.MustChange {
			r.T = "mustchange=false"
		}
		return r
	case *gldap.ControlManageDsaIT:
		r := plainCtl("managedsa")
		r.Crit = v.Criticality
		return r
	case *gldap.ControlMicrosoftNotification:
		return plainCtl("msnotif")
	case *gldap.ControlMicrosoftShowDeleted:
		return plainCtl("msshowdel")
	case *gldap.ControlMicrosoftServerLinkTTL:
		return plainCtl("msttl")
	case *gldap.ControlString:
		r := plainCtl("string")
		r.OID, r.Crit, r.Val = s.unstr(v.ControlType), v.Criticality, s.unstr(v.ControlValue)
		return r
	}
	return plainCtl(fmt.Sprintf("?%T", c))
}

func typeOfOID(oid string) string {
	for t, o := range ctlOIDs {
		if o == oid {
			return t
		}
	}
	return "string"
}

// absWire abstracts a control SEQUENCE parsed by the harness's strict parser (independent client)
func (s *ctlSym) absWire(n *berx.Node) ctlRec {
	g, err := lx.ParseControl(n)
	if err != nil {
		return plainCtl("?" + err.Error())
	}
	t := typeOfOID(g.OID)
	r := plainCtl(t)
	bad := func(why string) ctlRec { return plainCtl("?" + t + ": " + why) }
	switch t {
	case "paging":
		if !g.HasValue {
			return r
		}
		v, err := berx.ParseAll(g.Value)
		if err != nil || v.Class != berx.Univ || !v.Cons || v.Tag != berx.TagSeq || len(v.Kids) != 2 {
			return bad("value")
		}
		sz, ck := v.Kids[0], v.Kids[1]
		if sz.Class != berx.Univ || sz.Cons || sz.Tag != berx.TagInt || ck.Class != berx.Univ || ck.Cons || ck.Tag != berx.TagOct {
			return bad("size/cookie")
		}
		n, err := berx.DecInt(sz.Val)
		if err != nil {
			return bad("size")
		}
		r.Size, r.Cookie = s.unnum(n, maxU32), s.unstr(string(ck.Val))
	case "behera":
		if !g.HasValue {
			return r
		}
		v, err := berx.ParseAll(g.Value)
		if err != nil || v.Class != berx.Univ || !v.Cons || v.Tag != berx.TagSeq || len(v.Kids) > 2 {
			return bad("value")
		}
		for _, k := range v.Kids {
			switch {
			case k.Class == berx.Ctx && k.Cons && k.Tag == 0 && len(k.Kids) == 1 && k.Kids[0].Class == berx.Ctx && !k.Kids[0].Cons:
				n, err := berx.DecInt(k.Kids[0].Val)
				if err != nil {
					return bad("warning int")
				}
				switch k.Kids[0].Tag {
				case 0:
					r.Expire = s.unnum(n, maxI31)
				case 1:
					r.Grace = s.unnum(n, maxI31)
				default:
					return bad("warning choice")
				}
			case k.Class == berx.Ctx && !k.Cons && k.Tag == 1:
				n, err := berx.DecInt(k.Val)
				if err != nil {
					return bad("error enum")
				}
				r.Error = n
			default:
				return bad("element " + k.String())
			}
		}
	case "warning":
		if !g.HasValue {
			return r
		}
		n, err := strconv.ParseInt(string(g.Value), 10, 64)
		if err != nil {
			return bad("decimal")
		}
		r.Expire = s.unnum(n, maxI31)
	case "managedsa":
		r.Crit = g.Crit
		if g.HasValue {
			return bad("unexpected value")
		}
	case "string":
		r.OID, r.Crit, r.Val = s.unstr(g.OID), g.Crit, s.unstr(string(g.Value))
	default:
		if g.HasValue {
			return bad("unexpected value")
		}
	}
	if t != "managedsa" && t != "string" && g.Crit {
		return bad("criticality set")
	}
	return r
}

// absGoLdap abstracts what go-ldap's DecodeControl makes of the control; ok=false when go-ldap itself fails
func (s *ctlSym) absGoLdap(raw []byte) (rec ctlRec, ok bool) {
	defer func() {
		if r := recover(); r != nil {
			rec, ok = plainCtl("?go-ldap panic"), false
		}
	}()
	p, err := ber.DecodePacketErr(raw)
	if err != nil {
		return plainCtl("?ber"), false
	}
	c, err := ldap.DecodeControl(p)
	if err != nil {
		return plainCtl("?" + err.Error()), true
	}
	switch v := c.(type) {
	case *ldap.ControlPaging:
		r := plainCtl("paging")
		r.Size, r.Cookie = s.unnum(int64(v.PagingSize), maxU32), s.unstr(string(v.Cookie))
		return r, true
	case *ldap.ControlBeheraPasswordPolicy:
		r := plainCtl("behera")
		r.Grace, r.Expire, r.Error = s.unnum(v.Grace, maxI31), s.unnum(v.Expire, maxI31), int64(v.Error)
		return r, true
	case *ldap.ControlVChuPasswordWarning:
		r := plainCtl("warning")
		r.Expire = s.unnum(v.Expire, maxI31)
		return r, true
	case *ldap.ControlVChuPasswordMustChange:
		return plainCtl("mustchange"), true
	case *ldap.ControlManageDsaIT:
		r := plainCtl("managedsa")
		r.Crit = v.Criticality
		return r, true
	case *ldap.ControlMicrosoftNotification:
		return plainCtl("msnotif"), true
	case *ldap.ControlMicrosoftShowDeleted:
		return plainCtl("msshowdel"), true
	case *ldap.ControlMicrosoftServerLinkTTL:
		return plainCtl("msttl"), true
	case *ldap.ControlString:
		r := plainCtl("string")
		r.OID, r.Crit, r.Val = s.unstr(v.ControlType), v.Criticality, s.unstr(v.ControlValue)
		return r, true
	}
	return plainCtl(fmt.Sprintf("?%T", c)), true
}
