// gv: the verification harness driver/worker (one binary, one subcommand per property)
package main

import (
	"fmt"
	"os"

	"verif/harness/internal/props"
)

var cmds = map[string]func([]string) error{
	"c01":       props.C01,
	"c02":       props.C02,
	"c02worker": props.C02Worker,
	"c02hex":    props.C02Hex,
	"c03":       props.C03,
	"c04wt":     props.C04WT,
	"c04":       props.C04,
	"c05":       props.C05,
	"c14":       props.C14,
	"c16":       props.C16,
	"c18td":     props.C18TD,
	"c19":       props.C19,
	"c20":       props.C20,
	"scen":      props.Scen,
	"scenrun":   props.ScenRun,
}

func main() {
	if len(os.Args) < 2 {
		fmt.Fprintln(os.Stderr, "usage: gv <cmd> [flags]")
		os.Exit(2)
	}
	fn, ok := cmds[os.Args[1]]
	if !ok {
		fmt.Fprintln(os.Stderr, "unknown command", os.Args[1])
		os.Exit(2)
	}
	if err := fn(os.Args[2:]); err != nil {
		fmt.Fprintln(os.Stderr, "gv:", err)
		os.Exit(3)
	}
}
